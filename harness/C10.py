"""C10 - contracts calling contracted code terminate; only own re-entry goes unchecked."""
from typing import Any, Dict, List, Tuple

import icontract

from vfw.hlib import Tag, conc, drive, fresh, note, untraced
from vfw.hspec import B, H, I, bind

N = 3  # contracted functions f0, f1, f2


class Stop(Exception):
    """Raised by the harness's own depth guard (never expected)."""


class FuncWorld:
    """f_i carries a precondition pre_i (and optionally a postcondition post_i); conditions and bodies make
    the calls the current path's call graph tells them to."""

    def __init__(self, with_post: bool) -> None:
        self.calls_pre = [[-1, -1] for _ in range(N)]  # type: List[List[int]]
        self.calls_post = [[-1] for _ in range(N)]  # type: List[List[int]]
        self.calls_cap = [[-1] for _ in range(N)]  # type: List[List[int]]
        self.calls_body = [[-1, -1] for _ in range(N)]  # type: List[List[int]]
        self.truth = [True] * N  # type: List[Any]
        self.fuel = 0
        self.log = []  # type: List[Tuple[Any, ...]]
        self.depth = 0
        self.funcs = []  # type: List[Any]
        w = self

        def make(i: int) -> Any:
            def pre() -> Any:
                w.log.append(("pre", i))
                w.enter()
                try:
                    for c in w.calls_pre[i]:
                        if c >= 0:
                            w.funcs[c]()
                finally:
                    w.depth -= 1
                return w.truth[i]

            def post() -> Any:
                w.log.append(("post", i))
                w.enter()
                try:
                    for c in w.calls_post[i]:
                        if c >= 0:
                            w.funcs[c]()
                finally:
                    w.depth -= 1
                return True

            def cap() -> Any:
                w.log.append(("cap", i))
                w.enter()
                try:
                    for c in w.calls_cap[i]:
                        if c >= 0:
                            w.funcs[c]()
                finally:
                    w.depth -= 1
                return 0

            def body() -> Any:
                w.log.append(("body", i))
                if w.fuel > 0:
                    w.fuel -= 1
                    w.enter()
                    try:
                        for c in w.calls_body[i]:
                            if c >= 0:
                                w.funcs[c]()
                    finally:
                        w.depth -= 1
                return i

            f = body
            if with_post:
                f = icontract.ensure(post, error=lambda: Tag(("post", i)))(f)
                f = icontract.snapshot(cap, name="s")(f)
            f = icontract.require(pre, error=lambda: Tag(("pre", i)))(f)
            return f

        for i in range(N):
            self.funcs.append(make(i))

    def enter(self) -> None:
        self.depth += 1
        if self.depth > 60:
            raise Stop()


class RefViolation(Exception):
    def __init__(self, label: Tuple[Any, ...]) -> None:
        super().__init__(label)
        self.label = label


def reference(w: FuncWorld, with_post: bool, top: int, fuel: int) -> Tuple[List[Tuple[Any, ...]], Any]:
    """Reference interpreter of the documented rule.  Returns (log, outcome)."""
    log = []  # type: List[Tuple[Any, ...]]
    state = {"fuel": fuel}

    def call(i: int, marked: Tuple[int, ...]) -> None:
        if i in marked:
            # re-entrant call made while f_i's own contracts are being evaluated: unchecked
            body(i, marked)
            return
        # precondition, evaluated with f_i marked
        log.append(("pre", i))
        for c in w.calls_pre[i]:
            if c >= 0:
                call(c, marked + (i,))
        if not w.truth[i]:
            raise RefViolation(("pre", i))
        if with_post:
            # snapshot captures are contract evaluation too: f_i is still marked
            log.append(("cap", i))
            for c in w.calls_cap[i]:
                if c >= 0:
                    call(c, marked + (i,))
        # the body is NOT contract evaluation: calls made by it are checked in full
        body(i, marked)
        if with_post:
            log.append(("post", i))
            for c in w.calls_post[i]:
                if c >= 0:
                    call(c, marked + (i,))

    def body(i: int, marked: Tuple[int, ...]) -> None:
        log.append(("body", i))
        if state["fuel"] > 0:
            state["fuel"] -= 1
            for c in w.calls_body[i]:
                if c >= 0:
                    call(c, marked)

    try:
        call(top, ())
        return log, ("ret",)
    except RefViolation as v:
        return log, ("violation", v.label)


_WORLDS = {}  # type: Dict[bool, FuncWorld]


def run_graph(with_post: bool, top: int, fuel: int, e0: int, e1: int, e2: int, e3: int, e4: int, e5: int,
              b0: int, b1: int, b2: int, b3: int, b4: int, b5: int, p0: int, p1: int, p2: int,
              c0: int, c1: int, c2: int, t0: bool, t1: bool, t2: bool) -> Tuple[bool, bool]:
    top, fuel = conc(top, 0, N - 1), conc(fuel, 0, 3)
    edges_pre = [conc(e, -1, N - 1) for e in (e0, e1, e2, e3, e4, e5)]
    edges_body = [conc(e, -1, N - 1) for e in (b0, b1, b2, b3, b4, b5)]
    edges_post = [conc(e, -1, N - 1) for e in (p0, p1, p2)]
    edges_cap = [conc(e, -1, N - 1) for e in (c0, c1, c2)]
    with untraced():
        w = _WORLDS.get(with_post)
        if w is None:
            w = FuncWorld(with_post)
            _WORLDS[with_post] = w
        w.calls_pre = [edges_pre[0:2], edges_pre[2:4], edges_pre[4:6]]
        w.calls_body = [edges_body[0:2], edges_body[2:4], edges_body[4:6]]
        w.calls_post = [[edges_post[0]], [edges_post[1]], [edges_post[2]]]
        w.calls_cap = [[edges_cap[0]], [edges_cap[1]], [edges_cap[2]]]
    w.truth = [t0, t1, t2]
    ok = True
    witness = False
    trace = []
    # two top-level calls in the same context: the second must behave like the first of a fresh process
    # (the reference always starts from a clean state)

    def both() -> List[Tuple[List[Tuple[Any, ...]], Any]]:
        res = []
        for _ in range(2):
            w.fuel = fuel
            w.depth = 0
            del w.log[:]
            try:
                w.funcs[top]()
                out = ("ret",)  # type: Any
            except Tag as err:
                out = ("violation", err.label)
            except RecursionError:
                out = ("recursion-error",)
            except Stop:
                out = ("unbounded",)
            res.append((list(w.log), out))
        return res

    got = fresh(both)
    exp_log, exp_out = reference(w, with_post, top, fuel)
    for (glog, gout) in got:
        if glog != exp_log or gout != exp_out:
            ok = False
    # something was skipped because of re-entry <=> some function appears as body without its pre right before
    n_checked = sum(1 for e in exp_log if e[0] == "pre")
    n_bodies = sum(1 for e in exp_log if e[0] == "body")
    witness = n_bodies > n_checked
    note((with_post, top, fuel, tuple(edges_pre), tuple(edges_body), tuple(edges_post), tuple(edges_cap), tuple(exp_log), exp_out), witness)
    return ok, witness


# ---------------------------------------------------------------------------------------------
# objects with invariants whose invariants and methods call public methods
# ---------------------------------------------------------------------------------------------
class ObjWorld:
    def __init__(self) -> None:
        self.log = []  # type: List[Tuple[Any, ...]]
        self.inv_calls = [-1, -1]  # what the invariant calls: -1 none, 0 self.m0(), 1 self.m1()
        self.body_calls = {0: [-1, -1], 1: [-1, -1]}  # what m_k calls: -1 none, 0/1 = self.m0/m1, 2/3 = other.m0/m1
        self.fuel = 0
        self.depth = 0
        self.setup = True
        self.objs = []  # type: List[Any]
        w = self

        def inv(self: Any) -> Any:
            if w.setup:
                return True
            w.log.append(("inv", self.tag))
            w.enter()
            try:
                for c in w.inv_calls:
                    if c >= 0:
                        getattr(self, "m%d" % c)()
            finally:
                w.depth -= 1
            return True

        def mk(k: int) -> Any:
            def m(self: Any) -> Any:
                w.log.append(("body", self.tag, k))
                if w.fuel > 0:
                    w.fuel -= 1
                    w.enter()
                    try:
                        for c in w.body_calls[k]:
                            if c >= 0:
                                target = self if c < 2 else w.objs[1 - self.tag]
                                getattr(target, "m%d" % (c % 2))()
                    finally:
                        w.depth -= 1
                return k
            m.__name__ = "m%d" % k
            return m

        def __init__(self: Any, tag: int) -> None:
            self.tag = tag

        def m2(self: Any, /, **tags: Any) -> Any:
            # a method with a positional-only ``self`` and arbitrary keywords, called with a keyword named "self"
            w.log.append(("body", self.tag, 2))
            w.enter()
            try:
                tags["self"].m0()
            finally:
                w.depth -= 1
            return 2

        cls = type("K", (), {"__init__": __init__, "m0": mk(0), "m1": mk(1), "m2": m2})
        cls = icontract.invariant(inv, error=lambda: Tag("inv"))(cls)
        self.cls = cls
        self.objs = [cls(0), cls(1)]
        self.setup = False

    def enter(self) -> None:
        self.depth += 1
        if self.depth > 60:
            raise Stop()


def obj_reference(w: ObjWorld, first: Tuple[int, int], fuel: int) -> List[Tuple[Any, ...]]:
    log = []  # type: List[Tuple[Any, ...]]
    state = {"fuel": fuel}

    def call(o: int, k: int, marked: Tuple[int, ...]) -> None:
        if o in marked:
            body(o, k, marked)  # re-entrant on the same object: unchecked
            return
        inv(o, marked + (o,))
        body(o, k, marked + (o,))  # the object stays marked during its public method
        inv(o, marked + (o,))

    def inv(o: int, marked: Tuple[int, ...]) -> None:
        log.append(("inv", o))
        for c in w.inv_calls:
            if c >= 0:
                call(o, c, marked)

    def body(o: int, k: int, marked: Tuple[int, ...]) -> None:
        log.append(("body", o, k))
        if k == 2:
            call(1 - o, 0, marked)  # a.m2(self=b) calls b.m0()
            return
        if state["fuel"] > 0:
            state["fuel"] -= 1
            for c in w.body_calls[k]:
                if c >= 0:
                    call(o if c < 2 else 1 - o, c % 2, marked)

    call(first[0], first[1], ())
    return log


_OBJ = []  # type: List[ObjWorld]


def run_objs(o: int, k: int, fuel: int, i0: int, i1: int, c0: int, c1: int, c2: int, c3: int) -> Tuple[bool, bool]:
    o, k, fuel = conc(o, 0, 1), conc(k, 0, 2), conc(fuel, 0, 3)
    inv_calls = [conc(i0, -1, 1), conc(i1, -1, 1)]
    bc = [conc(c, -1, 3) for c in (c0, c1, c2, c3)]
    with untraced():
        if not _OBJ:
            _OBJ.append(ObjWorld())
        w = _OBJ[0]
        w.inv_calls = inv_calls
        w.body_calls = {0: bc[0:2], 1: bc[2:4]}
    ok = True

    def both() -> List[Tuple[List[Tuple[Any, ...]], Any]]:
        res = []
        for _ in range(2):
            w.fuel = fuel
            w.depth = 0
            del w.log[:]
            try:
                if k == 2:
                    w.objs[o].m2(self=w.objs[1 - o])
                else:
                    getattr(w.objs[o], "m%d" % k)()
                out = "ret"
            except RecursionError:
                out = "recursion-error"
            except Stop:
                out = "unbounded"
            res.append((list(w.log), out))
        return res

    got = fresh(both)
    exp = obj_reference(w, (o, k), fuel)
    for (glog, gout) in got:
        if gout != "ret" or glog != exp:
            ok = False
    witness = sum(1 for e in exp if e[0] == "body") > 1
    note(("objs", o, k, fuel, tuple(inv_calls), tuple(bc), tuple(exp)), witness)
    return ok, witness


ALL = ["top", "fuel", "e0", "e1", "e2", "e3", "e4", "e5", "b0", "b1", "b2", "b3", "b4", "b5", "p0", "p1", "p2",
       "c0", "c1", "c2", "t0", "t1", "t2"]


def run_shared_raw(is_async: bool, role: int, x: int) -> Tuple[bool, bool]:
    """Two checkers built over ONE raw function (f = require(A)(impl); g = require/ensure(B)(impl)), B calling f: while g's
    contracts are evaluated only g is re-entrant - f is another contracted callable and must be fully checked."""
    is_async = True if is_async else False
    role = conc(role, 0, 1)
    log = []  # type: List[Any]
    if is_async:
        async def impl(v: Any) -> Any:
            log.append("body")
            return v
    else:
        def impl(v: Any) -> Any:  # type: ignore
            log.append("body")
            return v

    def a_cond(v: Any) -> Any:
        log.append("f.pre")
        return v > 0
    f = icontract.require(a_cond, error=lambda: Tag("f.pre"))(impl)

    def b_cond(v: Any) -> Any:
        log.append("g.cond")
        r = f(v)
        if is_async:
            r = drive(r)
        return r is not None
    if role == 0:
        g = icontract.require(b_cond, error=lambda: Tag("g.pre"))(impl)
    else:
        g = icontract.ensure(b_cond, error=lambda: Tag("g.post"))(impl)
    try:
        r = g(x)
        if is_async:
            r = drive(r)
        out = ("ret", r)  # type: Tuple[str, Any]
    except Tag as err:
        out = ("tag", err.label)
    if x > 0:
        ok = out == ("ret", x) and log.count("f.pre") == 1
    else:
        # f's precondition is violated by the call made from g's contract: that violation must surface
        ok = out == ("tag", "f.pre")
    note(("shared_raw", is_async, role, out[0]), not (x > 0))
    return ok, not (x > 0)


_IMPORT_ORDER_SCRIPT = """
{imports}

out = []


@icontract.invariant(lambda self: self.balance >= 0)
class Account:
    def __init__(self):
        self.balance = 10

    async def settle(self):
        # a task created while this public method (and hence the object's mark) is in progress
        await asyncio.ensure_future(worker(self))

    async def withdraw(self, amount):
        self.balance -= amount


async def worker(account):
    try:
        await account.withdraw(100)
        out.append("invariant unchecked")
    except icontract.ViolationError:
        out.append("invariant checked")
    account.__dict__["balance"] = 10


@icontract.require(lambda amount: amount > 0)
@icontract.require(lambda amount: spawn(amount))
async def reserve(amount):
    return amount


async def spawn(amount):
    if amount == 1:
        async def child():
            try:
                await reserve(-5)
                out.append("precondition unchecked")
            except icontract.ViolationError:
                out.append("precondition checked")
        await asyncio.ensure_future(child())
    return True


async def main():
    await Account().settle()
    await reserve(1)

asyncio.run(main())
print(";".join(out))
"""


def run_import_order(order: int) -> Tuple[bool, bool]:
    """A fresh interpreter which imports icontract before / after asyncio: a task created while a mark is set (in the body of a
    public method of an object with invariants, in a precondition) is another task - its calls are fully checked."""
    import os
    import shutil
    import subprocess
    import sys
    import tempfile
    order = conc(order, 0, 1)
    with untraced():
        verif = os.path.dirname(os.path.dirname(os.path.abspath(__file__)))
        base = os.path.join(verif, ".work")
        os.makedirs(base, exist_ok=True)
        d = tempfile.mkdtemp(prefix="gen_", dir=base)
        try:
            path = os.path.join(d, "import_order.py")
            with open(path, "w") as f:
                f.write(_IMPORT_ORDER_SCRIPT.replace(
                    "{imports}", ["import icontract\nimport asyncio", "import asyncio\nimport icontract"][order]))
            env = dict(os.environ, PYTHONPATH=os.environ.get("VERIF_REPO", "/repo"))
            res = subprocess.run([sys.executable, path], env=env, capture_output=True, text=True, timeout=120)
            got = res.stdout.strip()
        finally:
            shutil.rmtree(d, True)
    note(("import_order", order, got), True)
    return got == "invariant checked;precondition checked", True


def harnesses(tier: str) -> List[H]:
    out = []  # type: List[H]
    out.append(H("import_order_tasks", bind(run_import_order, (), ["order"], {}, ["order"]), [I("order", 0, 1)], tiers=(tier,),
                 timeout=200,
                 family="fresh interpreter importing icontract before / after asyncio; asyncio tasks created inside a public async "
                        "method of an object with an invariant and inside a precondition make violating calls (run natively)",
                 family_size=2))
    SR = ["is_async", "role", "x"]
    out.append(H("shared_raw_function", bind(run_shared_raw, (), SR, {}, SR), [B("is_async"), I("role", 0, 1), I("x", -3, 3)],
                 tiers=(tier,), timeout=200,
                 family="two checkers over one raw function (def / async def); the precondition / postcondition of the second "
                        "calls the first", family_size=4))
    E = lambda n: I(n, -1, N - 1)  # noqa: E731
    base = {n: -1 for n in ALL if n[0] in "ebpc"}  # type: Dict[str, Any]
    base.update({"t0": True, "t1": True, "t2": True, "top": 0, "fuel": 0})
    # 1. conditions calling functions (no body calls): all graphs with <= 1 (quick) / 2 (thorough) calls per condition
    if tier == "quick":
        for v in range(-1, N):
            sfx = "_%s" % ("n" if v < 0 else v)
            params = [I("top", 0, 2), E("e2"), E("e4"), E("e1"), B("t0"), B("t1"), B("t2")]
            d = dict(base)
            d["e0"] = v
            out.append(H("graph_conditions" + sfx, bind(run_graph, (False,), ALL, d, [p.name for p in params]), params,
                         tiers=(tier,), timeout=900,
                         family="3 contracted functions; each precondition calls one function (or none), f0's calls two "
                                "(first callee of f0's precondition: %d); truth of each condition symbolic" % v,
                         family_size=4 ** 3 * 3))
            params = [I("fuel", 1, 2), E("e0"), E("e2"), E("b2"), E("b1"), B("t1")]
            d = dict(base)
            d["b0"] = v
            out.append(H("graph_bodies" + sfx, bind(run_graph, (False,), ALL, d, [p.name for p in params]), params,
                         tiers=(tier,), timeout=900,
                         family="bodies of f0/f1 call functions too (fuel-bounded; first callee of f0's body: %d); "
                                "recursive calls made by a body must be checked" % v, family_size=4 ** 4 * 2))
            params = [I("top", 0, 1), E("p0"), E("c0"), E("c1"), E("b0")]
            d = dict(base)
            d["e0"] = v
            d["fuel"] = 1
            out.append(H("graph_post" + sfx, bind(run_graph, (True,), ALL, d, [p.name for p in params]), params,
                         tiers=(tier,), timeout=900,
                         family="functions with pre-/postconditions and snapshot captures, all calling functions (first "
                                "callee of f0's precondition: %d)" % v, family_size=4 ** 4 * 2))
    else:
        for top in range(3):
            for v in range(-1, N):
                params = [E("e1"), E("e2"), E("e3"), E("e4"), E("e5"), B("t0"), B("t1"), B("t2")]
                d = dict(base)
                d["top"] = top
                d["e0"] = v
                out.append(H("graph_conditions_top%d_%s" % (top, "n" if v < 0 else v),
                             bind(run_graph, (False,), ALL, d, [p.name for p in params]),
                             params, tiers=(tier,), timeout=3600,
                             family="3 contracted functions; each precondition makes up to two calls; all 4^5 graphs with the "
                                    "first callee of f0's precondition = %d" % v,
                             family_size=4 ** 5))
        for fuel in (1, 2):
            for v in range(-1, N):
                params = [E("e0"), E("e2"), E("e4"), E("b1"), E("b2"), E("b3"), B("t1"), B("t2")]
                d = dict(base)
                d["fuel"] = fuel
                d["b0"] = v
                out.append(H("graph_bodies_fuel%d_%s" % (fuel, "n" if v < 0 else v),
                             bind(run_graph, (False,), ALL, d, [p.name for p in params]),
                             params, tiers=(tier,), timeout=3600,
                             family="conditions call one function each; bodies of f0/f1 call up to two (first callee of f0's "
                                    "body: %d); fuel %d" % (v, fuel), family_size=4 ** 6))
        for v in range(-1, N):
            params = [I("top", 0, 1), E("e2"), E("p0"), E("p1"), E("c0"), E("c1"), E("b0")]
            d = dict(base)
            d["e0"] = v
            d["fuel"] = 1
            out.append(H("graph_post_%s" % ("n" if v < 0 else v), bind(run_graph, (True,), ALL, d, [p.name for p in params]),
                         params, tiers=(tier,), timeout=3600,
                         family="pre-/postconditions, snapshot captures and bodies calling functions (first callee of f0's "
                                "precondition: %d)" % v, family_size=4 ** 6 * 2))
    # 2. objects
    OA = ["o", "k", "fuel", "i0", "i1", "c0", "c1", "c2", "c3"]
    if tier == "quick":
        params = [I("o", 0, 1), I("k", 0, 2), I("fuel", 0, 2), I("i0", -1, 1), I("c0", -1, 3), I("c2", -1, 3)]
        d = {"i1": -1, "c1": -1, "c3": -1}
    else:
        params = [I("o", 0, 1), I("k", 0, 2), I("fuel", 0, 2), I("i0", -1, 1), I("i1", -1, 1), I("c0", -1, 3), I("c2", -1, 3),
                  I("c3", -1, 3)]
        d = {"c1": -1}
    out.append(H("objects", bind(run_objs, (), OA, d, [p.name for p in params]), params, tiers=(tier,),
                 timeout=900 if tier == "quick" else 3600,
                 family="two objects of a class with an invariant; the invariant calls public methods of self; method "
                        "bodies call public methods of self and of the other object (fuel-bounded)",
                 family_size=3 * 5 * 5 * 4 * 3))
    return out
