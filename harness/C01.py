"""C01 - preconditions gate every call: the body runs iff the effective precondition holds."""
from typing import Any, Dict, List, Tuple

from vfw.build import RT, get_built, invoke, identify, raised_types
from vfw.hlib import Tag, fresh, note, conc
from vfw.hspec import B, H, I, bind
from vfw.prog import ASYNC_KINDS, ALL_KINDS, INV_AROUND, CTOR_KINDS, Level, Prog, effective, expect

RESULT = object()


def _levels(kind: str, n0: int, d1: int, n1: int, surround: int) -> Tuple[Level, ...]:
    post = 1 if surround in (1, 2) else 0
    snaps = 1 if surround == 2 else 0
    inv = ("CALL",) if surround == 3 and kind != "func" else ()
    l0 = Level(defines=True, pre=n0, post=post, snaps=snaps, inv=inv)
    if kind == "func" or d1 == 0:
        return (l0,)
    if d1 == 1:
        return (l0, Level(defines=False))
    return (l0, Level(defines=True, pre=n1))


def run_pre(kind: str, is_async: bool, mode: str, n0: int, d1: int, n1: int, surround: int, r: int,
            t0: bool, t1: bool, t2: bool, t3: bool, t4: bool, x: int, thr: int, amode: int = 0) -> Tuple[bool, bool]:
    """amode (async callables only): how the conditions and captures are written - 0 plain functions, 1 coroutine
    functions, 2 plain functions returning a coroutine, 3 plain functions returning a non-coroutine awaitable (like a
    Future or a Task)."""
    n0, d1, n1, surround, r = conc(n0, 0, 4), conc(d1, 0, 2), conc(n1, 0, 2), conc(surround, 0, 3), conc(r, 0, 2)
    amode = conc(amode, 0, 3) if is_async else 0
    prog = Prog(kind=kind, is_async=is_async, levels=_levels(kind, n0, d1, n1, surround))
    eff = effective(prog)
    if eff.creation_error_at is not None:
        return True, False  # class creation must fail: that is C04's clause, not C01's
    truths = [t0, t1, t2, t3, t4]
    offset = {0: 0, 1: n0}

    def tv(role: str, lvl: int, i: int, when: Any) -> Any:
        if role != "pre":
            return True
        idx = offset[lvl] + i
        if r == 1 and idx == 0:
            return x - thr  # an int: falsy iff x == thr
        if r == 2 and idx == 0:
            return x > thr
        return truths[idx]

    def body(kw: Dict[str, Any]) -> Any:
        return RESULT

    built = get_built(prog, mode, async_conds=amode)
    rt = RT(tv=tv, body=body, error_mode=mode)
    built.rt = rt

    kinds_exc = raised_types(built)
    try:
        res = fresh(invoke, built, x)
        raised = None
    except kinds_exc as err:  # noqa: B030
        res = None
        raised = err

    exp_events, exp_out = expect(prog, tv, body_raises=False)
    holds = exp_out[0] != "violation"
    entered = ("body",) in rt.log
    ok = True
    # body entered iff the effective precondition holds
    if entered != holds:
        ok = False
    if holds:
        if raised is not None:
            ok = False
        elif kind in CTOR_KINDS:
            if not isinstance(res, built.classes[-1]):
                ok = False
        elif kind in ("prop_set", "prop_del"):
            pass
        elif res is not RESULT:
            ok = False
    else:
        # no snapshot captured, a violated contract's error raised
        if any(e[0] == "snap" for e in rt.log):
            ok = False
        if raised is None:
            ok = False
        else:
            label = identify(built, raised)
            if label is None or label[0] != "pre":
                ok = False
            elif tv("pre", label[1], label[2], None):
                ok = False  # the error of a contract that was NOT violated
    # every condition saw the call's argument
    for (label, kw) in rt.seen:
        if label[0] == "pre" and "x" in kw and kw["x"] is not x:
            ok = False
    # contracts of the property's other accessors must never be evaluated for this accessor
    if any(e[0] == "sibling" for e in rt.log):
        ok = False
    witness = (not holds) and raised is not None
    note((kind, is_async, mode, amode, n0, d1, n1, surround, tuple(rt.log), "viol" if not holds else "ok"), witness)
    return ok, witness


_SHARED_PRE = {}  # type: Dict[Any, Any]


def run_shared_predicate_pre(shape: int, own: bool, tp: bool, ta: bool, tb: bool, tc: bool) -> Tuple[bool, bool]:
    """One predicate function p is a conjunct of the precondition groups of two classes which a third class inherits both:
    shape 0 - Base(p, a) <- Child(p, b) <- GrandChild; shape 1 - Left(p, a), Right(p, b) <- Both.  The third class overrides
    the method with / without an own group (c).  Effective precondition: (p and a) or (p and b) [or c]."""
    import icontract
    from vfw.hlib import untraced
    shape = conc(shape, 0, 1)
    own = True if own else False
    with untraced():
        w = _SHARED_PRE.get((shape, own))
        if w is None:
            w = {"truth": {}, "log": []}
            hw = w

            def cond(name: str) -> Any:
                def c(x: Any) -> Any:
                    hw["log"].append(name)
                    return hw["truth"][name]
                c.__name__ = name
                return c
            p = cond("p")

            def method(groups: List[str], label: str) -> Any:
                def m(self: Any, x: Any) -> Any:
                    hw["log"].append("body")
                    return label
                f = m
                for g in groups:
                    f = icontract.require(p if g == "p" else cond(g), error=(lambda g=g: Tag(g)))(f)
                return f
            if shape == 0:
                base = icontract.DBCMeta("Base", (icontract.DBC,), {"m": method(["a", "p"], "base")})
                child = icontract.DBCMeta("Child", (base,), {"m": method(["b", "p"], "child")})
                third = icontract.DBCMeta("GrandChild", (child,), {"m": method(["c"] if own else [], "third")})
            else:
                left = icontract.DBCMeta("Left", (icontract.DBC,), {"m": method(["a", "p"], "left")})
                right = icontract.DBCMeta("Right", (icontract.DBC,), {"m": method(["b", "p"], "right")})
                third = icontract.DBCMeta("Both", (left, right), {"m": method(["c"] if own else [], "third")})
            w["inst"] = third()
            _SHARED_PRE[(shape, own)] = w
    w["truth"] = {"p": tp, "a": ta, "b": tb, "c": tc}
    del w["log"][:]
    try:
        res = fresh(w["inst"].m, 1)
        raised = None
    except Tag as err:
        res = None
        raised = err
    holds = (tp and ta) or (tp and tb) or (own and tc)
    entered = "body" in w["log"]
    ok = entered == (True if holds else False)
    if holds:
        ok = ok and raised is None and res == "third"
    else:
        # the error of a violated condition of the last group tried
        ok = ok and raised is not None and not w["truth"][raised.label]
    note(("shared_predicate_pre", shape, own, entered), not holds)
    return ok, not holds


ALL = ["n0", "d1", "n1", "surround", "r", "t0", "t1", "t2", "t3", "t4", "x", "thr", "amode"]


def _mk(kind: str, is_async: bool, mode: str, params: List[Any]):  # type: ignore
    defaults = {"d1": 0, "n1": 0, "t3": True, "t4": True, "amode": 0}
    return bind(run_pre, (kind, is_async, mode), ALL, defaults, [p.name for p in params])


def harnesses(tier: str) -> List[H]:
    out = []  # type: List[H]
    SP = ["shape", "own", "tp", "ta", "tb", "tc"]
    out.append(H("shared_predicate_pre", bind(run_shared_predicate_pre, (), SP, {}, SP),
                 [I("shape", 0, 1), B("own"), B("tp"), B("ta"), B("tb"), B("tc")], tiers=(tier,), timeout=200,
                 family="the same predicate function is a conjunct of two inherited precondition groups (chain Base <- Child <- "
                        "GrandChild, or two bases Left, Right <- Both), each group with a further condition; the third class "
                        "overrides the method with / without an own group", family_size=4))
    truth3 = [B("t0"), B("t1"), B("t2")]
    for kind in ALL_KINDS:
        for is_async in (False, True):
            if is_async and kind not in ASYNC_KINDS:
                continue
            modes = ["factory"] if tier == "quick" and (is_async or kind not in ("func", "method")) else ["factory", "default"]
            if tier == "quick" and kind in ("func", "method"):
                modes = modes + ["falsy_factory"]
            if tier == "thorough":
                modes = ["factory", "default", "class", "instance", "falsy_factory"]
            for mode in modes:
                name = "pre_{}{}_{}".format(kind, "_async" if is_async else "", mode)
                n0hi = 3 if tier == "quick" else 4
                if kind == "func":
                    params = [I("n0", 0, n0hi), I("surround", 0, 2), I("r", 0, 2)] + truth3 + \
                        ([B("t3")] if tier == "thorough" else []) + [I("x", -4, 12), I("thr", -4, 12)]
                    size = (n0hi + 1) * 3 * 3
                else:
                    n0hi = 2 if tier == "quick" else 3
                    params = [I("n0", 0, n0hi), I("d1", 0, 2), I("n1", 0, 2), I("surround", 0, 3), I("r", 0, 2)] + \
                        truth3 + [B("t3")] + ([B("t4")] if tier == "thorough" else []) + \
                        [I("x", -4, 12), I("thr", -4, 12)]
                    size = (n0hi + 1) * 3 * 3 * 4 * 3
                with_amode = is_async and (tier == "quick" or mode == "factory")
                if with_amode:
                    params = params + [I("amode", 0, 3)]
                    size *= 4
                out.append(H(name, _mk(kind, is_async, mode, params), params, tiers=(tier,),
                             timeout=240 if tier == "quick" else 2400,
                             family="kind={} async={} error={}; own stack 0..{}, optional subclass level "
                                    "(absent / not overriding / overriding with 0..2 own), surround in "
                                    "{{none, post, post+snapshot, invariant}}, truth rendering in "
                                    "{{bool, int x-thr, x>thr}}{}".format(
                                        kind, is_async, mode, n0hi,
                                        "; conditions/captures written as {plain, coroutine function, plain returning a "
                                        "coroutine, plain returning a non-coroutine awaitable}" if with_amode else ""),
                             family_size=size))
    return out
