"""C16 - deterministic evaluation order and first-failure reporting."""
from typing import Any, Dict, List, Tuple

from vfw.build import RT, get_built, invoke, identify, raised_types
from vfw.hlib import Tag, conc, fresh, note
from vfw.hspec import B, H, I, bind
from vfw.prog import CTOR_KINDS, Level, Prog, effective, expect

RESULT = object()


def _levels(kind: str, a0: int, b0: int, s0: int, i0: int, d1: int, a1: int, b1: int, i1: int,
            d2: int, a2: int, b2: int, fg: bool = False) -> Tuple[Level, ...]:
    """fg: every level that defines the member puts a foreign functools.wraps decorator on top of its contracts."""
    inv0 = ("CALL",) * i0 if kind != "func" else ()
    levels = [Level(True, pre=a0, post=b0, snaps=s0 if b0 else 0, inv=inv0, foreign=fg)]
    if kind != "func" and d1:
        if d1 == 1:
            levels.append(Level(False, inv=("CALL",) * i1))
        else:
            levels.append(Level(True, pre=a1, post=b1, inv=("CALL",) * i1, foreign=fg))
        if d2:
            if d2 == 1:
                levels.append(Level(False))
            else:
                levels.append(Level(True, pre=a2, post=b2, foreign=fg))
    return tuple(levels)


def run_order(kind: str, is_async: bool, mode: str, a0: int, b0: int, s0: int, i0: int, d1: int, a1: int, b1: int,
              i1: int, d2: int, a2: int, b2: int,
              p0: bool, p1: bool, p2: bool, p3: bool, p4: bool, q0: bool, q1: bool, q2: bool, q3: bool,
              v0: bool, v1: bool, w0: bool, w1: bool, fg: bool = False) -> Tuple[bool, bool]:
    fg = True if fg else False
    a0, b0, s0, i0 = conc(a0, 0, 2), conc(b0, 0, 2), conc(s0, 0, 1), conc(i0, 0, 1)
    d1, a1, b1, i1 = conc(d1, 0, 2), conc(a1, 0, 2), conc(b1, 0, 1), conc(i1, 0, 1)
    d2, a2, b2 = conc(d2, 0, 2), conc(a2, 0, 1), conc(b2, 0, 1)
    prog = Prog(kind=kind, is_async=is_async, levels=_levels(kind, a0, b0, s0, i0, d1, a1, b1, i1, d2, a2, b2, fg))
    eff = effective(prog)
    if eff.creation_error_at is not None:
        return True, False
    pres = [p0, p1, p2, p3, p4]
    posts = [q0, q1, q2, q3]
    inv_before = [v0, v1]
    inv_after = [w0, w1]
    pre_off = {0: 0, 1: a0, 2: a0 + a1}
    post_off = {0: 0, 1: b0, 2: b0 + b1}
    inv_off = {0: 0, 1: i0}

    def tv(role: str, lvl: int, i: int, when: Any) -> Any:
        if role == "pre":
            return pres[pre_off[lvl] + i]
        if role == "post":
            return posts[post_off[lvl] + i]
        if role == "inv":
            return (inv_before if when == "before" else inv_after)[inv_off[lvl] + i]
        return True

    def body(kw: Dict[str, Any]) -> Any:
        return RESULT

    built = get_built(prog, mode)
    rt = RT(tv=tv, body=body, error_mode=mode)
    built.rt = rt
    catch = raised_types(built)
    try:
        fresh(invoke, built, 7)
        raised = None
    except catch as err:  # noqa: B030
        raised = err
    exp_events, exp_out = expect(prog, tv, body_raises=False)
    ok = True
    # complete event log in reference order (this also gives: at most once per check, groups tried in
    # order until one holds, conjunctive groups stop at the first falsy condition)
    if list(rt.log) != exp_events:
        ok = False
    if exp_out[0] == "ret":
        if raised is not None:
            ok = False
    else:
        if raised is None:
            ok = False
        else:
            label = identify(built, raised)
            if label != (exp_out[1], exp_out[2], exp_out[3]):
                ok = False
    # the error factory of a contract runs only if that contract's error is raised (in particular not for a violated
    # group of preconditions that is followed by a satisfied one)
    if mode in ("factory", "falsy_factory"):
        want_err = [] if exp_out[0] == "ret" else [(exp_out[1], exp_out[2], exp_out[3])]
        if list(rt.errlog) != want_err:
            ok = False
    witness = exp_out[0] == "violation" and raised is not None
    note((kind, is_async, mode, a0, b0, s0, i0, d1, a1, b1, i1, d2, a2, b2, tuple(rt.log), exp_out), witness)
    return ok, witness


_SHARED = {}  # type: Dict[str, Any]


def run_shared_predicate(kind_i: int, tp: bool, tq: bool) -> Tuple[bool, bool]:
    """Base.m ensures pred (error E_base); Derived.m ensures other (E_other) and, stacked above, pred again (E_derived):
    the error raised is that of the FIRST falsy postcondition in evaluation order (inherited first)."""
    import icontract
    from vfw.hlib import untraced
    kind_i = conc(kind_i, 0, 1)
    with untraced():
        w = _SHARED.get(kind_i)
        if w is None:
            w = {"truth": {}, "log": []}
            hw = w

            def pred(result: Any) -> Any:
                hw["log"].append("pred")
                return hw["truth"]["pred"]

            def other(result: Any) -> Any:
                hw["log"].append("other")
                return hw["truth"]["other"]

            def body(self: Any) -> Any:
                return 1
            fb = icontract.ensure(pred, error=lambda: Tag("E_base"))(body)

            def body2(self: Any) -> Any:
                return 2
            fd = icontract.ensure(other, error=lambda: Tag("E_other"))(body2)
            fd = icontract.ensure(pred, error=lambda: Tag("E_derived"))(fd)
            if kind_i == 0:
                Base = icontract.DBCMeta("Base", (icontract.DBC,), {"m": fb})
                Derived = icontract.DBCMeta("Derived", (Base,), {"m": fd})
                w["call"] = lambda: Derived().m()
            else:
                Base = icontract.DBCMeta("Base", (icontract.DBC,), {"m": property(fb)})
                Derived = icontract.DBCMeta("Derived", (Base,), {"m": property(fd)})
                w["call"] = lambda: Derived().m
            _SHARED[kind_i] = w
    w["truth"] = {"pred": tp, "other": tq}
    del w["log"][:]
    try:
        fresh(w["call"])
        got = "ret"
    except Tag as err:
        got = err.label
    # evaluation order: inherited pred (E_base), own other (E_other), own pred (E_derived)
    want = "E_base" if not tp else ("E_other" if not tq else "ret")
    ok = got == want
    note(("shared_predicate", kind_i, got), got != "ret")
    return ok, got != "ret"


_PATHS = {}  # type: Dict[Any, Any]
PATH_SHAPES = ["diamond", "recreated_by_slots_dataclass"]


def run_two_paths(shape_i: int, kind_i: int, d_post: bool, t_pre: bool, t_post: bool, t_dpost: bool, t_inv_b: bool,
                  t_inv_a: bool) -> Tuple[bool, bool]:
    """A contract reaches a class along two paths - a diamond A <- B, C <- D with D overriding the member, or a class that
    is created a second time from its own namespace as ``dataclasses.dataclass(slots=True)`` does: every inherited
    condition is still evaluated at most once per check, in the documented order."""
    import dataclasses
    import icontract
    from vfw.hlib import untraced
    shape_i, kind_i = conc(shape_i, 0, 1), conc(kind_i, 0, 1)
    d_post = True if d_post else False
    key = (shape_i, kind_i, d_post)
    with untraced():
        w = _PATHS.get(key)
        if w is None:
            w = {"truth": {}, "log": [], "setup": True}
            hw = w

            def mk(name: str, params: str) -> Any:
                ns = {"hw": hw}  # type: Dict[str, Any]
                exec("def {}({}):\n    return hw['ev']({!r})\n".format(name.replace(".", "_"), params, name), ns)
                return ns[name.replace(".", "_")]

            def ev(name: str) -> Any:
                if hw["setup"]:
                    return True
                hw["log"].append(name)
                return hw["truth"][name]
            hw["ev"] = ev

            def body(self: Any, x: Any = 1) -> Any:
                hw["log"].append("body")
                return 1
            fa = icontract.ensure(mk("A.post", "result"), error=lambda: Tag("A.post"))(body)
            fa = icontract.require(mk("A.pre", "self"), error=lambda: Tag("A.pre"))(fa)
            member = (lambda f: f) if kind_i == 0 else property
            A = icontract.DBCMeta("A", (icontract.DBC,), {"m": member(fa)})
            A = icontract.invariant(mk("A.inv", "self"), error=lambda: Tag("A.inv"))(A)

            def body_d(self: Any, x: Any = 1) -> Any:
                hw["log"].append("body")
                return 2
            fd = body_d
            if d_post:
                fd = icontract.ensure(mk("D.post", "result"), error=lambda: Tag("D.post"))(fd)
            if shape_i == 0:
                B = icontract.DBCMeta("B", (A,), {})
                C = icontract.DBCMeta("C", (A,), {})
                D = icontract.DBCMeta("D", (B, C), {"m": member(fd)})
            else:
                D0 = icontract.DBCMeta("D", (A,), {"m": member(fd), "__annotations__": {"v": int}, "v": 1})
                D = dataclasses.dataclass(slots=True)(D0)
            inst = D()
            w["call"] = (lambda: inst.m()) if kind_i == 0 else (lambda: inst.m)
            _PATHS[key] = w
    w["setup"] = False
    truth = {"A.pre": t_pre, "A.post": t_post, "D.post": t_dpost}
    seq = {"A.inv": [t_inv_b, t_inv_a]}
    calls = {"n": 0}

    def ev2(name: str) -> Any:
        w["log"].append(name)
        if name == "A.inv":
            v = seq["A.inv"][min(calls["n"], 1)]
            calls["n"] += 1
            return v
        return truth[name]
    w["ev"] = ev2
    del w["log"][:]
    try:
        fresh(w["call"])
        got = "ret"
    except Tag as err:
        got = err.label
    finally:
        w["setup"] = True
    # expected: invariant, precondition, body, inherited postcondition, own postcondition, invariant - each once
    want_log = ["A.inv"]
    want = "ret"
    if not t_inv_b:
        want = "A.inv"
    else:
        want_log.append("A.pre")
        if not t_pre:
            want = "A.pre"
        else:
            want_log += ["body", "A.post"]
            if not t_post:
                want = "A.post"
            else:
                if d_post:
                    want_log.append("D.post")
                if d_post and not t_dpost:
                    want = "D.post"
                else:
                    want_log.append("A.inv")
                    if not t_inv_a:
                        want = "A.inv"
    ok = got == want and w["log"] == want_log
    note(("two_paths", PATH_SHAPES[shape_i], kind_i, d_post, got), got != "ret")
    return ok, got != "ret"


ALL = ["a0", "b0", "s0", "i0", "d1", "a1", "b1", "i1", "d2", "a2", "b2", "p0", "p1", "p2", "p3", "p4",
       "q0", "q1", "q2", "q3", "v0", "v1", "w0", "w1", "fg"]


def _mk(kind: str, is_async: bool, mode: str, fixed: Dict[str, Any], params: List[Any]):  # type: ignore
    defaults = {n: (0 if n[0] in "absid" else True) for n in ALL}
    defaults["fg"] = False
    defaults.update(fixed)
    return bind(run_order, (kind, is_async, mode), ALL, defaults, [p.name for p in params])


def harnesses(tier: str) -> List[H]:
    out = []  # type: List[H]
    pre_bits = [B("p0"), B("p1"), B("p2"), B("p3")]
    post_bits = [B("q0"), B("q1"), B("q2")]
    inv_bits = [B("v0"), B("v1"), B("w0"), B("w1")]
    cfgs = [("func", False, "factory"), ("method", False, "factory"), ("init", False, "factory"),
            ("method", True, "factory"), ("func", False, "default"),
            # error factories returning exceptions that are falsy (a class defining __len__ -> 0)
            ("method", False, "falsy_factory")]
    if tier == "thorough":
        cfgs += [("func", True, "factory"), ("static", False, "factory"), ("class", True, "factory"),
                 ("prop_get", False, "factory"), ("prop_set", False, "factory"), ("new", False, "factory"),
                 ("method", False, "default")]
    #: thorough tier: 3-level chains for these configurations only, the others get the 2-level families of the quick tier
    deep_cfgs = [("method", False, "factory"), ("prop_get", False, "factory")]
    SP = ["kind_i", "tp", "tq"]
    out.append(H("shared_predicate", bind(run_shared_predicate, (), SP, {}, SP), [I("kind_i", 0, 1), B("tp"), B("tq")],
                 tiers=(tier,), timeout=200,
                 family="method / property getter of a DBC hierarchy where the same predicate function object is the condition "
                        "of an inherited and of an own postcondition (different errors)", family_size=2))
    TP = ["shape_i", "kind_i", "d_post", "t_pre", "t_post", "t_dpost", "t_inv_b", "t_inv_a"]
    out.append(H("two_paths", bind(run_two_paths, (), TP, {}, TP),
                 [I("shape_i", 0, 1), I("kind_i", 0, 1), B("d_post"), B("t_pre"), B("t_post"), B("t_dpost"), B("t_inv_b"),
                  B("t_inv_a")], tiers=(tier,), timeout=300,
                 family="a method / property getter whose contracts (precondition, postcondition, class invariant of A) reach the "
                        "overriding class along two paths: diamond A <- B, C <- D, or a class created twice from its namespace by "
                        "dataclass(slots=True); with / without an own postcondition", family_size=8))
    for (kind, is_async, mode) in cfgs:
        base = "order_{}{}_{}".format(kind, "_async" if is_async else "", mode)
        if kind == "func":
            params = [I("a0", 0, 2), I("b0", 0, 2), I("s0", 0, 1)] + pre_bits[:2] + post_bits[:2]
            out.append(H(base, _mk(kind, is_async, mode, {}, params), params, tiers=(tier,), timeout=300,
                         family="plain function: own pre 0..2, post 0..2, snapshot 0..1", family_size=18))
            continue
        # member kinds: split by the shape of level 1 so that the processes run in parallel
        for d1 in (0, 1, 2):
            if tier == "quick" or (kind, is_async, mode) not in deep_cfgs:
                for a1 in ((0, 1, 2) if d1 == 2 else (0,)):
                    params = [I("a0", 0, 2), I("b0", 0, 2), I("s0", 0, 1), I("i0", 0, 1)]
                    fixed = {"d1": d1, "a1": a1}
                    if d1 == 2:
                        params += [I("b1", 0, 1), I("i1", 0, 1)]
                    elif d1 == 1:
                        params += [I("i1", 0, 1)]
                    params += pre_bits + post_bits + inv_bits
                    if kind == "method" and d1 == 2 and not is_async:
                        params += [B("fg")]  # with / without a foreign functools.wraps decorator above every contract stack
                    out.append(H("{}_d{}{}".format(base, d1, "a%d" % a1 if d1 == 2 else ""),
                                 _mk(kind, is_async, mode, fixed, params), params, tiers=(tier,),
                                 timeout=400,
                                 family="kind={}: level0 pre 0..2 post 0..2 snapshot 0..1 invariant 0..1; level1 {}".format(
                                     kind, ["absent", "not overriding, invariant 0..1",
                                            "overriding: pre %d post 0..1 invariant 0..1" % a1][d1]),
                                 family_size=36 * [1, 2, 4][d1]))
            else:
                for d2 in ((0,) if d1 == 0 else (0, 1, 2)):
                    # (three overriding levels: at most one precondition per level, so that the harness stays in budget)
                    hi = 1 if (d1 == 2 and d2 == 2) else 2
                    params = [I("a0", 0, hi), I("b0", 0, hi), I("s0", 0, 1), I("i0", 0, 1)]
                    fixed = {"d1": d1, "d2": d2}
                    if d1 == 2:
                        params += [I("a1", 0, hi), I("b1", 0, 1), I("i1", 0, 1)]
                    elif d1 == 1:
                        params += [I("i1", 0, 1)]
                    if d2 == 2:
                        params += [I("a2", 0, 1), I("b2", 0, 1)]
                    params += pre_bits + [B("p4")] + post_bits + [B("q3")] + inv_bits + [B("fg")]
                    out.append(H("{}_d{}{}".format(base, d1, d2), _mk(kind, is_async, mode, fixed, params), params,
                                 tiers=(tier,), timeout=900,
                                 family="kind={}: 3-level chain, level1 shape {}, level2 shape {} (0 absent, 1 not "
                                        "overriding, 2 overriding)".format(kind, d1, d2),
                                 family_size=36 * [1, 2, 12][d1] * [1, 1, 4][d2]))
    return out
