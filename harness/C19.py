"""C19 - misuse is rejected at the earliest point with the documented error."""
from typing import Any, Dict, List, Tuple

import icontract

from vfw.hlib import Tag, conc, drive, note, untraced
from vfw.hspec import H, I, bind

MISUSE = ["kwonly_param__ARGS", "kwonly_param__KWARGS", "varkw_param__KWARGS", "varpos_param__ARGS", "param__ARGS", "param__KWARGS", "kwarg__ARGS_at_call", "kwarg__KWARGS_at_call", "param_result_with_post",
          "param_OLD_with_post", "param_result_pre_only_is_fine", "invariant_condition_extra_param",
          "invariant_condition_other_param", "invariant_coroutine_condition", "invariant_condition_returns_coroutine", "snapshot_on_bare", "snapshot_above_pre_only",
          "error_int", "error_str", "error_non_exception_class", "error_object", "error_list",
          # callables that are neither functions nor methods nor exception classes
          "error_callable_object", "error_partial", "error_builtin",
          # the same misuse on a disabled decorator (enabled=False, the default under -O)
          "disabled_error_int", "disabled_error_callable_object", "disabled_invariant_extra_param",
          "disabled_invariant_coroutine_condition", "disabled_snapshot_no_params", "disabled_snapshot_two_params",
          # the reserved names of postconditions as variadic parameters
          "varpos_param_result_with_post", "varkw_param_OLD_with_post",
          # the reserved keyword passed to a function WITHOUT **kwargs: still rejected by the library before anything is evaluated
          "kwarg__ARGS_at_call_no_varkw_violated", "kwarg__KWARGS_at_call_no_varkw_condition_reads_it"]
DECOS = ["require", "ensure", "invariant"]
TARGETS = ["function", "async_function", "method", "staticmethod", "classmethod", "property_getter"]


def _mk(params: str, is_async: bool) -> Any:
    ns = {}  # type: Dict[str, Any]
    exec("{}def f({}):\n    return 'res'\n".format("async " if is_async else "", params), ns)
    return ns["f"]


def _wrap_target(f: Any, target: str) -> Tuple[Any, Any]:
    """Returns (holder-or-None, callable taking the function's non-self arguments)."""
    if target in ("function", "async_function"):
        return None, f
    if target == "method":
        H_ = type("H_", (), {"m": f})
        return H_, lambda *a, **k: H_().m(*a, **k)
    if target == "staticmethod":
        H_ = type("H_", (), {"m": staticmethod(f)})
        return H_, lambda *a, **k: H_.m(*a, **k)
    if target == "classmethod":
        H_ = type("H_", (), {"m": classmethod(f)})
        return H_, lambda *a, **k: H_.m(*a, **k)
    H_ = type("H_", (), {"m": property(f)})
    return H_, lambda *a, **k: H_().m


def _self_prefix(target: str) -> str:
    return {"method": "self, ", "classmethod": "cls, ", "property_getter": "self, "}.get(target, "")


def _check(m: str, deco: str, target: str) -> Tuple[str, bool]:
    """Returns (what happened, ok)."""
    is_async = target == "async_function"
    pre = lambda f, **kw: icontract.require(lambda: True, **kw)(f)  # noqa: E731
    post = lambda f, **kw: icontract.ensure(lambda: True, **kw)(f)  # noqa: E731
    apply = pre if deco == "require" else post
    sp = _self_prefix(target)

    def run(fn: Any, *a: Any, **k: Any) -> Any:
        r = fn(*a, **k)
        return drive(r) if is_async else r

    if m in ("kwonly_param__ARGS", "kwonly_param__KWARGS", "varkw_param__KWARGS", "varpos_param__ARGS"):
        if deco == "invariant" or target == "property_getter":
            return "n/a", True
        name = "_ARGS" if m.endswith("_ARGS") else "_KWARGS"
        sig = {"kwonly_param__ARGS": "x, *, _ARGS=()", "kwonly_param__KWARGS": "x, *, _KWARGS=None",
               "varkw_param__KWARGS": "x, **_KWARGS", "varpos_param__ARGS": "x, *_ARGS"}[m]
        bare = _mk(sp + sig, is_async)
        try:
            apply(bare)
        except TypeError as err:
            return "TypeError at decoration", name in str(err)
        return "accepted", False
    if m in ("param__ARGS", "param__KWARGS"):
        if deco == "invariant" or target == "property_getter":
            return "n/a", True
        name = "_ARGS" if m == "param__ARGS" else "_KWARGS"
        bare = _mk(sp + "x, " + name + "=1", is_async)
        try:
            apply(bare)
        except TypeError as err:
            return "TypeError at decoration", name in str(err)
        return "accepted", False
    if m in ("kwarg__ARGS_at_call", "kwarg__KWARGS_at_call"):
        if deco == "invariant" or target == "property_getter":
            return "n/a", True
        name = "_ARGS" if m == "kwarg__ARGS_at_call" else "_KWARGS"
        f = apply(_mk(sp + "x, **kwargs", is_async))
        _, call = _wrap_target(f, target)
        try:
            run(call, 1, **{name: 2})
        except TypeError as err:
            ok = name in str(err)
            # ... and an ordinary call still works
            return "TypeError at call", ok and run(call, 1, other=2) == "res"
        return "accepted", False
    if m in ("kwarg__ARGS_at_call_no_varkw_violated", "kwarg__KWARGS_at_call_no_varkw_condition_reads_it"):
        if deco == "invariant" or target == "property_getter":
            return "n/a", True
        seen = []  # type: List[Any]
        bare = _mk(sp + "x", is_async)
        if m == "kwarg__ARGS_at_call_no_varkw_violated":
            name = "_ARGS"
            cond = lambda x: (seen.append("cond"), x > 0)[1]  # noqa: E731
        else:
            name = "_KWARGS"
            cond = lambda _KWARGS: (seen.append(_KWARGS), True)[1]  # noqa: E731
        f = (icontract.require if deco == "require" else icontract.ensure)(cond, error=lambda: Tag("violated"))(bare)
        _, call = _wrap_target(f, target)
        try:
            run(call, -1, **{name: "spoofed"})
        except TypeError as err:
            # the library's own rejection, before any condition saw anything
            return "TypeError at call", name in str(err) and "unexpected keyword" not in str(err) and not seen
        except Tag:
            return "the violation was reported instead", False
        return "accepted", False
    if m in ("param_result_with_post", "param_OLD_with_post"):
        if deco != "ensure" or target == "property_getter":
            return "n/a", True
        name = "result" if m == "param_result_with_post" else "OLD"
        f = post(_mk(sp + "x, " + name + "=1", is_async))
        _, call = _wrap_target(f, target)
        try:
            run(call, 1)
        except TypeError as err:
            return "TypeError at call", name in str(err)
        return "accepted", False
    if m in ("varpos_param_result_with_post", "varkw_param_OLD_with_post"):
        if deco != "ensure" or target == "property_getter":
            return "n/a", True
        name = "result" if m == "varpos_param_result_with_post" else "OLD"
        f = post(_mk(sp + "x, " + ("*result" if name == "result" else "**OLD"), is_async))
        _, call = _wrap_target(f, target)
        try:
            run(call, 1)
        except TypeError as err:
            return "TypeError at call", name in str(err)
        return "accepted", False
    if m in ("disabled_snapshot_no_params", "disabled_snapshot_two_params"):
        if deco != "ensure" or target != "function":
            return "n/a", True
        try:
            icontract.snapshot((lambda: 1) if m == "disabled_snapshot_no_params" else (lambda a, b: 1), enabled=False)
        except ValueError:
            return "ValueError at definition", True
        return "accepted", False
    if m == "param_result_pre_only_is_fine":
        if deco != "require" or target == "property_getter":
            return "n/a", True
        f = pre(_mk(sp + "x, result=1, OLD=2", is_async))
        _, call = _wrap_target(f, target)
        return "works", run(call, 1) == "res"
    if m in ("invariant_condition_extra_param", "invariant_condition_other_param", "invariant_coroutine_condition"):
        if deco != "invariant":
            return "n/a", True
        try:
            if m == "invariant_condition_extra_param":
                icontract.invariant(lambda self, x: True)
            elif m == "invariant_condition_other_param":
                icontract.invariant(lambda x: True)
            else:
                async def acond(self: Any) -> bool:
                    return True
                icontract.invariant(acond)
        except ValueError:
            return "ValueError at definition", True
        return "accepted", False
    if m == "invariant_condition_returns_coroutine":
        if deco != "invariant":
            return "n/a", True
        import warnings

        async def acheck(self: Any) -> bool:
            return False
        K = icontract.invariant(lambda self: acheck(self))(type("K", (), {"m": lambda self: 1}))
        with warnings.catch_warnings():
            warnings.simplefilter("ignore")
            try:
                K()
            except ValueError:
                return "ValueError at the first check", True
        return "coroutine taken as truthy", False
    if m in ("snapshot_on_bare", "snapshot_above_pre_only"):
        if deco == "invariant" or target == "property_getter":
            return "n/a", True
        bare = _mk(sp + "x", is_async)
        f = bare if m == "snapshot_on_bare" else pre(bare)
        try:
            icontract.snapshot(lambda x: x)(f)
        except ValueError:
            # nothing was half-registered
            chk = icontract._checkers.find_checker(f)
            return "ValueError at definition", chk is None or not chk.__postcondition_snapshots__
        return "accepted", False
    if m in ("disabled_invariant_extra_param", "disabled_invariant_coroutine_condition"):
        if deco != "invariant":
            return "n/a", True
        try:
            if m == "disabled_invariant_extra_param":
                icontract.invariant(lambda self, x: True, enabled=False)
            else:
                async def acond2(self: Any) -> bool:
                    return True
                icontract.invariant(acond2, enabled=False)
        except ValueError:
            return "ValueError at definition", True
        return "accepted", False
    if m.startswith("error_") or m.startswith("disabled_error_"):
        import functools

        class CallableObject:
            def __call__(self, *a: Any, **k: Any) -> Exception:
                return ValueError("x")
        extra = {"enabled": False} if m.startswith("disabled_") else {}
        bad = {"error_int": 42, "error_str": "oops", "error_non_exception_class": int, "error_object": object(),
               "error_list": [ValueError], "error_callable_object": CallableObject(),
               "error_partial": functools.partial(ValueError, "x"), "error_builtin": repr,
               "disabled_error_int": 42, "disabled_error_callable_object": CallableObject()}[m]
        try:
            if deco == "require":
                icontract.require(lambda: True, error=bad, **extra)  # type: ignore
            elif deco == "ensure":
                icontract.ensure(lambda: True, error=bad, **extra)  # type: ignore
            else:
                icontract.invariant(lambda self: True, error=bad, **extra)  # type: ignore
        except ValueError:
            return "ValueError at definition", True
        return "accepted", False
    raise ValueError(m)


def run_misuse(m_i: int, d_i: int, t_i: int) -> Tuple[bool, bool]:
    m_i, d_i, t_i = conc(m_i, 0, len(MISUSE) - 1), conc(d_i, 0, len(DECOS) - 1), conc(t_i, 0, len(TARGETS) - 1)
    with untraced():
        import icontract._checkers  # noqa: F401
        what, ok = _check(MISUSE[m_i], DECOS[d_i], TARGETS[t_i])
    note((MISUSE[m_i], DECOS[d_i], TARGETS[t_i], what), what != "n/a")
    return ok, what != "n/a"


def harnesses(tier: str) -> List[H]:
    params = [I("m_i", 0, len(MISUSE) - 1), I("d_i", 0, len(DECOS) - 1), I("t_i", 0, len(TARGETS) - 1)]
    return [H("misuse", bind(run_misuse, (), ["m_i", "d_i", "t_i"], {}, ["m_i", "d_i", "t_i"]), params, tiers=(tier,),
              timeout=600, grid=400,
              family="misuse kinds {} x decorators {} x targets {} (combinations that cannot occur are skipped); the finite "
                     "product is exhausted by the solver's case split over the three selectors".format(MISUSE, DECOS, TARGETS),
              family_size=len(MISUSE) * len(DECOS) * len(TARGETS))]
