"""C05 - contracts observe the same argument values the body receives."""
import inspect
import itertools
from typing import Any, Dict, List, Optional, Tuple

import icontract

from vfw.build import mkfn
from vfw.hlib import Tag, conc, concb, drive, fresh, note, untraced
from vfw.hspec import B, H, I, bind

POSONLY = ["a", "b"]
POK = ["c", "d"]
KWONLY = ["e", "f"]


class Default:
    def __init__(self, name: str) -> None:
        self.name = name

    def __repr__(self) -> str:
        return "<default {}>".format(self.name)


class AnyEqDefault(Default):
    """A default value that claims to be equal to everything (like unittest.mock.ANY)."""

    def __eq__(self, other: Any) -> bool:
        return True

    def __ne__(self, other: Any) -> bool:
        return False

    __hash__ = Default.__hash__


DEFAULTS = {n: (AnyEqDefault(n) if n in ("b", "d", "f") else Default(n)) for n in POSONLY + POK + KWONLY}
KWVAL = {n: Default("kw:" + n) for n in POSONLY + POK + KWONLY + ["zz"]}


class Sig:
    def __init__(self, npo: int, npk: int, ndef: int, var: bool, kwo: Tuple[Tuple[str, bool], ...], varkw: bool) -> None:
        self.npo, self.npk, self.ndef, self.var, self.kwo, self.varkw = npo, npk, ndef, var, kwo, varkw
        pos = POSONLY[:npo] + POK[:npk]
        parts = []  # type: List[str]
        self.named = []  # type: List[str]
        self.has_default = {}  # type: Dict[str, bool]
        for k, n in enumerate(pos):
            d = k >= len(pos) - ndef
            parts.append("{}=__D__[{!r}]".format(n, n) if d else n)
            self.named.append(n)
            self.has_default[n] = d
            if k == npo - 1:
                parts.append("/")
        if var:
            parts.append("*args")
        elif kwo:
            parts.append("*")
        for (n, d) in kwo:
            parts.append("{}=__D__[{!r}]".format(n, n) if d else n)
            self.named.append(n)
            self.has_default[n] = d
        if varkw:
            parts.append("**kw")
        self.text = ", ".join(parts)

    def __repr__(self) -> str:
        return "def f({})".format(self.text)


def all_sigs() -> List[Sig]:
    out = []
    kwo_opts = [()]  # type: List[Tuple[Tuple[str, bool], ...]]
    for d0 in (False, True):
        kwo_opts.append((("e", d0),))
        for d1 in (False, True):
            kwo_opts.append((("e", d0), ("f", d1)))
    for npo in range(3):
        for npk in range(3):
            for ndef in range(npo + npk + 1):
                for var in (False, True):
                    for kwo in kwo_opts:
                        for varkw in (False, True):
                            out.append(Sig(npo, npk, ndef, var, kwo, varkw))
    return out


SIGS = all_sigs()
GROUPS = {}  # type: Dict[Tuple[int, int], List[int]]
for _i, _s in enumerate(SIGS):
    GROUPS.setdefault((_s.npo, _s.npk), []).append(_i)


class Holder:
    def __init__(self) -> None:
        self.body = None  # type: Optional[Dict[str, Any]]
        self.seen = []  # type: List[Tuple[str, Dict[str, Any]]]
        self.post_truth = True


class Prog:
    def __init__(self, sig: Sig, is_async: bool, ask_zz: bool, po: bool = True) -> None:
        self.sig = sig
        self.h = Holder()
        prog = self
        ns = {"__D__": DEFAULTS}  # type: Dict[str, Any]

        def body_impl(loc: Dict[str, Any]) -> Any:
            prog.h.body = loc
            return "res"

        ns["__impl__"] = body_impl
        names = list(sig.named) + (["args"] if sig.var else []) + (["kw"] if sig.varkw else [])
        src = "{}def f({}):\n    return __impl__({{{}}})\n".format(
            "async " if is_async else "", sig.text, ", ".join("{!r}: {}".format(n, n) for n in names))
        exec(compile(src, "<C05>", "exec"), ns)
        self.bare = ns["f"]
        asked = tuple(sig.named) + ("_ARGS", "_KWARGS")

        def rec(tag: str, ret: Any):  # type: ignore
            def impl(kw: Dict[str, Any]) -> Any:
                prog.h.seen.append((tag, kw))
                return ret() if callable(ret) else ret
            return impl

        pre = mkfn(asked + (("zz",) if ask_zz else ()), rec("pre", True), name="pre")
        # (with po False the capture, too, has a defaulted parameter that is not a parameter of f)
        # ... and asks for the named parameters of f through parameters with default values of its own: it must still get the
        # objects of the call, not its defaults
        own_defaults = ("_ARGS", "_KWARGS") + tuple(n + "=-12345" for n in sig.named)
        cap = mkfn(asked if po else own_defaults + ("extra_c=77",), rec("cap", "captured"), name="cap")
        # po: the postcondition itself asks for OLD; otherwise only its error factory does, which then also has a parameter
        # with a default value that is not a parameter of f
        post = mkfn(asked + ("result",) + (("OLD",) if po else ()), rec("post", lambda: prog.h.post_truth), name="post")
        err = mkfn(asked + ("result", "OLD") if po else ("result", "OLD") + own_defaults + ("extra_e=2021",),
                   rec("err", lambda: Tag("post")), name="err")
        f = icontract.ensure(post, error=err)(self.bare)
        f = icontract.snapshot(cap, name="snap")(f)
        f = icontract.require(pre, error=lambda: Tag("pre"))(f)
        self.f = f
        self.pysig = inspect.signature(self.bare)


_CACHE = {}  # type: Dict[Tuple[int, bool, bool, bool], Prog]


def run_bind(members: Tuple[int, ...], is_async: bool, si: int, npos: int, kc: bool, kd: bool, ke: bool, kf: bool,
             ka: bool, kz: bool, ask_zz: bool, fail_post: bool, v0: int, v1: int, po: bool = True) -> Tuple[bool, bool]:
    si = conc(si, 0, len(members) - 1)
    npos = conc(npos, 0, 6)
    kc, kd, ke, kf, ka, kz, ask_zz, fail_post = (concb(kc), concb(kd), concb(ke), concb(kf), concb(ka), concb(kz),
                                                 concb(ask_zz), concb(fail_post))
    po = concb(po)
    key = (members[si], is_async, ask_zz, po)
    with untraced():
        prog = _CACHE.get(key)
        if prog is None:
            prog = Prog(SIGS[members[si]], is_async, ask_zz, po)
            _CACHE[key] = prog
        prog.h = Holder()
    sig = prog.sig
    h = prog.h
    h.post_truth = not fail_post
    # the call: positional values (two of them symbolic ints, the rest concrete sentinels) and keywords
    pos_pool = [v0, v1, Default("p2"), Default("p3"), Default("p4"), Default("p5")]
    args = tuple(pos_pool[:npos])
    kwargs = {}  # type: Dict[str, Any]
    for flag, n in ((kc, "c"), (kd, "d"), (ke, "e"), (kf, "f"), (ka, "a"), (kz, "zz")):
        if flag:
            kwargs[n] = KWVAL[n]
    # the oracle for "a call that Python can bind" is CPython itself: call the bare function
    # (inspect.Signature.bind is stricter than the interpreter for positional-only names vs. **kw)
    try:
        rb = prog.bare(*args, **kwargs)
        if is_async:
            drive(rb)
        bindable = True
    except TypeError:
        bindable = False
    bare_body = h.body
    h.body = None

    def call() -> Any:
        r = prog.f(*args, **kwargs)
        return drive(r) if is_async else r

    try:
        res = fresh(call)
        out = ("ret", res)  # type: Tuple[str, Any]
    except Tag as err:
        out = ("tag", err)
    except TypeError as err:
        out = ("type_error", err)

    ok = True
    if not bindable:
        # outside the claim, except: the body must not have run
        ok = h.body is None and out[0] == "type_error"
        note((repr(sig), npos, tuple(sorted(kwargs)), "unbindable"), False)
        return ok, False
    if ask_zz and "zz" not in kwargs:
        # the condition asks for a name the call does not provide: TypeError naming it, condition not evaluated
        ok = out[0] == "type_error" and "zz" in str(out[1]) and not any(t == "pre" for t, _ in h.seen) and h.body is None
        note((repr(sig), npos, tuple(sorted(kwargs)), "missing-name"), True)
        return ok, True
    if h.body is None:
        return False, False
    body = h.body
    # (the decorated call hands the body the very objects the bare call does)
    if bare_body is None or set(bare_body) != set(body):
        ok = False
    else:
        for n in sig.named:
            if bare_body[n] is not body[n]:
                ok = False
    if fail_post:
        if out[0] != "tag" or out[1].label != "post":
            ok = False
    elif out != ("ret", "res"):
        ok = False
    want_tags = ["pre", "cap", "post"] + (["err"] if fail_post else [])
    if [t for t, _ in h.seen] != want_tags:
        ok = False
    for tag, kw in h.seen:
        for n in sig.named:
            if n not in kw or kw[n] is not body[n]:
                ok = False  # a contract saw another object than the body for a named parameter
        if "_ARGS" not in kw or len(kw["_ARGS"]) != len(args) or any(x is not y for x, y in zip(kw["_ARGS"], args)):
            ok = False
        if "_KWARGS" not in kw or set(kw["_KWARGS"].keys()) != set(kwargs.keys()) or any(
                kw["_KWARGS"][k] is not kwargs[k] for k in kwargs):
            ok = False
        if tag in ("post", "err"):
            if kw.get("result") != "res":
                ok = False
            if (po or tag == "err") and getattr(kw.get("OLD"), "snap", None) != "captured":
                ok = False
            if tag == "err" and not po and kw.get("extra_e") != 2021:
                ok = False
        if tag == "cap" and not po and kw.get("extra_c") != 77:
            ok = False
    note((repr(sig), npos, tuple(sorted(kwargs)), fail_post), True)
    return ok, True


ALL = ["si", "npos", "kc", "kd", "ke", "kf", "ka", "kz", "ask_zz", "fail_post", "v0", "v1", "po"]


def _quick_subset(idx: List[int]) -> List[int]:
    keep = []
    for i in idx:
        sg = SIGS[i]
        if sg.kwo not in ((), (("e", False), ("f", True))):
            continue
        if sg.ndef not in (0, sg.npo + sg.npk):
            continue
        keep.append(i)
    return keep


def harnesses(tier: str) -> List[H]:
    out = []  # type: List[H]
    for group in sorted(GROUPS):
        if tier == "quick":
            parts = [("", tuple(_quick_subset(GROUPS[group])))]
        else:
            parts = []
            for var in (False, True):
                for varkw in (False, True):
                    parts.append(("_v{}k{}".format(int(var), int(varkw)),
                                  tuple(i for i in GROUPS[group] if SIGS[i].var == var and SIGS[i].varkw == varkw)))
        for suffix, members in parts:
            n = len(members)
            if tier == "quick":
                params = [I("si", 0, n - 1), I("npos", 0, 4), B("kc"), B("ke"), B("ka")]
                defaults = {"kd": False, "kf": False, "kz": False, "ask_zz": False, "fail_post": False, "po": True}
            else:
                params = [I("si", 0, n - 1), I("npos", 0, 6), B("kc"), B("kd"), B("ke"), B("kf"), B("ka"), B("kz")]
                defaults = {"ask_zz": False, "fail_post": False, "po": True}
            params += [I("v0", -5, 5), I("v1", -5, 5)]
            name = "bind_po{}_pk{}{}".format(group[0], group[1], suffix)
            out.append(H(name, bind(run_bind, (members, False), ALL, defaults, [p.name for p in params]), params,
                         tiers=(tier,), timeout=900 if tier == "quick" else 5400,
                         family="{} generated signatures with {} positional-only and {} positional-or-keyword parameters "
                                "({}); call shapes: 0..{} positionals x keyword presence bits ({}) incl. the "
                                "positional-only name a and an unknown name zz; e.g. {!r}".format(
                                    n, group[0], group[1],
                                    "trailing-default count 0 or all, *args yes/no, keyword-only {none, (e, f=D)}, **kw yes/no"
                                    if tier == "quick" else "every trailing-default count, keyword-only e/f with/without defaults",
                                    4 if tier == "quick" else 6, "c, e, a" if tier == "quick" else "c, d, e, f, a, zz",
                                    SIGS[members[-1]]),
                         family_size=n, grid=300))
    # violated postcondition (error factory sees the values too), missing name, async rendering: on a slice
    slice_members = tuple(_quick_subset(GROUPS[(1, 1)]) if tier == "quick" else GROUPS[(1, 1)])
    n = len(slice_members)
    for (name, is_async, fixed, extra) in (
            ("bind_fail_post", False, {"fail_post": True, "ask_zz": False}, [B("po")]),
            ("bind_missing_name", False, {"fail_post": False, "ask_zz": True, "po": True}, []),
            ("bind_async", True, {"ask_zz": False, "po": True}, [B("fail_post")]),
            ("bind_async_err_only_OLD", True, {"ask_zz": False, "po": False}, [B("fail_post")])):
        params = [I("si", 0, n - 1), I("npos", 0, 4), B("kc"), B("ke"), B("ka"), B("kz")] + extra + [I("v0", -5, 5), I("v1", -5, 5)]
        defaults = {"kd": False, "kf": False}
        defaults.update(fixed)
        out.append(H(name, bind(run_bind, (slice_members, is_async), ALL, defaults, [p.name for p in params]), params,
                     tiers=(tier,), timeout=900 if tier == "quick" else 3600,
                     family="{} signatures with one positional-only and one positional-or-keyword parameter; {}".format(
                         n, {"bind_fail_post": "the postcondition is violated so that the error factory is called; OLD is asked for by "
                                               "the postcondition and its error factory, or by the error factory only (which then "
                                               "also has a defaulted parameter unknown to f)",
                             "bind_missing_name": "the precondition additionally asks for the name 'zz'",
                             "bind_async": "async def rendering",
                             "bind_async_err_only_OLD": "async def rendering; only the error factory asks for OLD (and the "
                                                        "capture / error factory have defaulted parameters)"}[name]),
                     family_size=n, grid=300))
    return out
