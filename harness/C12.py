"""C12 - concurrent callers never disable each other's checks."""
import asyncio
import contextvars
import os
import threading
from typing import Any, Dict, List, Optional, Tuple

import icontract

from vfw.hlib import Suspend, Tag, conc, drive, note, untraced
from vfw.hspec import B, H, I, bind

MODES = ["fresh_context_each", "copy_before_parent_checked_call", "copy_after_parent_checked_call"]


class World:
    def __init__(self, shape: str) -> None:
        self.shape = shape
        self.log = []  # type: List[Tuple[Any, ...]]
        self.hook = None  # type: Any
        #: awaitable factory used at every suspension point: ``Suspend()`` when the coroutines are stepped by hand, a
        #: turnstile wait when the calls run as tasks of a real asyncio event loop (replay)
        self.susp = lambda who: Suspend()  # type: Any
        w = self

        async def apre(x: Any) -> Any:
            w.log.append(("pre", x[0]))
            await w.susp(x[0])
            return x[1]

        def spre(x: Any) -> Any:
            w.log.append(("pre", x[0]))
            if w.hook is not None:
                w.hook("pre", x[0])
            return x[1]

        def spost(result: Any, x: Any) -> Any:
            w.log.append(("post", x[0]))
            if w.hook is not None:
                w.hook("post", x[0])
            return True

        if shape == "afunc":
            async def h(x: Any) -> Any:
                w.log.append(("body", x[0]))
                await w.susp(x[0])
                await w.susp(x[0])
                return ("res", x[0])
            f = icontract.ensure(lambda result, x: w.log.append(("post", x[0])) or True, error=lambda: Tag("post"))(h)
            self.fn = icontract.require(apre, error=lambda x: Tag(("pre", x[0])))(f)
            self.call = lambda x: self.fn(x)

            @icontract.require(lambda: True, error=lambda: Tag("warm"))
            async def warm() -> int:
                return 1
            self.warm = lambda: drive(warm())
        elif shape == "amethod":
            async def m(self: Any, x: Any) -> Any:
                w.log.append(("body", x[0]))
                await w.susp(x[0])
                await w.susp(x[0])
                return ("res", x[0])
            m.__name__ = "m"
            m2 = icontract.require(apre, error=lambda x: Tag(("pre", x[0])))(m)

            def other(self: Any) -> int:
                return 1
            cls = type("K", (), {"m": m2, "other": other})
            cls = icontract.invariant(lambda self: w.log.append(("inv",)) or True, error=lambda: Tag("inv"))(cls)
            self.obj = cls()
            self.call = lambda x: self.obj.m(x)
            self.warm = lambda: self.obj.other()
        elif shape == "sfunc":
            def g(x: Any) -> Any:
                w.log.append(("body", x[0]))
                if w.hook is not None:
                    w.hook("body", x[0])
                return ("res", x[0])
            f = icontract.ensure(spost, error=lambda: Tag("post"))(g)
            self.fn = icontract.require(spre, error=lambda x: Tag(("pre", x[0])))(f)
            self.call = lambda x: self.fn(x)

            @icontract.require(lambda: True, error=lambda: Tag("warm"))
            def swarm() -> int:
                return 1
            self.warm = swarm
        else:
            raise ValueError(shape)


_CACHE = {}  # type: Dict[str, World]


def drive_in(ctx: contextvars.Context, coro: Any) -> Any:
    """Run a coroutine to completion inside ctx, resuming it at every suspension."""
    try:
        while True:
            ctx.run(coro.send, None)
    except StopIteration as stop:
        return stop.value


def _contexts(w: World, mode: int, n: int) -> List[contextvars.Context]:
    if mode == 0:
        return [contextvars.Context() for _ in range(n)]
    parent = contextvars.Context()
    if mode == 2:
        parent.run(w.warm)  # the parent executes contracted code before spawning (as asyncio tasks' creators do)
    return [parent.run(contextvars.copy_context) for _ in range(n)]


class Turnstile:
    """Forces a given interleaving on a REAL asyncio event loop: a task proceeds past a suspension point only when it is
    its turn; the controller hands out the turns in the order of the schedule."""

    def __init__(self, n: int) -> None:
        self.turn = -1
        self.cond = asyncio.Condition()
        self.waiting = [False] * n
        self.done = [False] * n

    async def arrive(self, who: int) -> None:
        async with self.cond:
            self.waiting[who] = True
            self.cond.notify_all()
            await self.cond.wait_for(lambda: self.turn == who)
            self.turn = -1
            self.waiting[who] = False


def run_on_real_loop(w: World, ncalls: int, mode: int, sched: List[int], valid: List[Any]) -> List[Any]:
    """The same scenario with asyncio tasks on a real event loop (used by replays, not under CrossHair)."""
    outcome = [None] * ncalls  # type: List[Any]

    async def main() -> None:
        ts = Turnstile(ncalls)
        w.susp = lambda who: ts.arrive(who)

        async def one(i: int) -> None:
            await ts.arrive(i)  # every call starts at the turnstile so that the controller decides who runs first
            try:
                outcome[i] = ("ret", await w.call((i, valid[i])))
            except Tag as err:
                outcome[i] = ("violation", err.label)
            async with ts.cond:
                ts.done[i] = True
                ts.cond.notify_all()

        if mode == 2:
            r = w.warm()  # the parent task executes contracted code before it creates the tasks
            if asyncio.iscoroutine(r):
                await r
        tasks = []
        for i in range(ncalls):
            if mode == 0:
                tasks.append(asyncio.get_running_loop().create_task(one(i), context=contextvars.Context()))
            else:
                tasks.append(asyncio.create_task(one(i)))  # copies the parent's context, as asyncio always does
        step = 0
        while not all(ts.done):
            async with ts.cond:
                await ts.cond.wait_for(lambda: all(ts.waiting[i] or ts.done[i] for i in range(ncalls)))
                runnable = [i for i in range(ncalls) if not ts.done[i]]
                if not runnable:
                    break
                if len(runnable) == 1:
                    pick = runnable[0]
                else:
                    choice = sched[step] if step < len(sched) else 0
                    step += 1
                    pick = runnable[choice % len(runnable)]
                ts.waiting[pick] = False
                ts.turn = pick
                ts.cond.notify_all()
            async with ts.cond:
                await ts.cond.wait_for(lambda: ts.waiting[pick] or ts.done[pick])
        await asyncio.gather(*tasks)

    try:
        asyncio.run(main())
    finally:
        w.susp = lambda who: Suspend()
    return outcome


def run_sched(shape: str, ncalls: int, mode: int, s0: int, s1: int, s2: int, s3: int, s4: int, s5: int, s6: int, s7: int,
              s8: int, v0: bool, v1: bool, v2: bool) -> Tuple[bool, bool]:
    """Interleave ncalls concurrent async calls under the symbolic schedule s0..s8."""
    mode = conc(mode, 0, 2)
    with untraced():
        w = _CACHE.get(shape)
        if w is None:
            w = World(shape)
            _CACHE[shape] = w
    del w.log[:]
    w.hook = None
    valid = [v0, v1, v2][:ncalls]
    if os.environ.get("VERIF_REAL_LOOP") == "1":
        # replay mode: asyncio tasks on a real event loop, interleavings forced by a turnstile.  The step numbering of the
        # real loop differs from the hand-stepped model (every task first arrives at the turnstile), so all schedules of
        # the same length are tried for the same context mode and inputs; any failing one reproduces the violation.
        import itertools
        ok_r = True
        for sched_c in itertools.product(range(ncalls), repeat=6 if ncalls == 2 else 5):
            outcome_r = run_on_real_loop(w, ncalls, mode, list(sched_c), valid)
            for i in range(ncalls):
                want = ("ret", ("res", i)) if valid[i] else ("violation", ("pre", i))
                if outcome_r[i] != want:
                    ok_r = False
            if not ok_r:
                print("real asyncio loop: schedule {} gives {}".format(sched_c, outcome_r))
                break
        return ok_r, True
    ctxs = _contexts(w, mode, ncalls)
    coros = [ctxs[i].run(w.call, (i, valid[i])) for i in range(ncalls)]
    outcome = [None] * ncalls  # type: List[Any]
    sched = [s0, s1, s2, s3, s4, s5, s6, s7, s8]
    step = 0
    interleaved = False
    last = -1
    switches = 0
    while True:
        runnable = [i for i in range(ncalls) if outcome[i] is None]
        if not runnable:
            break
        if len(runnable) == 1:
            pick = runnable[0]
        else:
            choice = sched[step] if step < len(sched) else 0
            step += 1
            pick = runnable[conc(choice, 0, ncalls - 1) % len(runnable)]
        if last != -1 and pick != last and outcome[last] is None:
            switches += 1
        last = pick
        try:
            ctxs[pick].run(coros[pick].send, None)
        except StopIteration as stop:
            outcome[pick] = ("ret", stop.value)
        except Tag as err:
            outcome[pick] = ("violation", err.label)
    ok = True
    # afterwards the same task makes a further, violating call: it must be rejected (no mark left behind by the
    # overlapping check phases)
    for i in range(ncalls):
        try:
            drive_in(ctxs[i], w.call((100 + i, False)))
            ok = False
        except Tag as err:
            if err.label != ("pre", 100 + i):
                ok = False
    for i in range(ncalls):
        # the verdict of a call run alone depends only on its own input
        want = ("ret", ("res", i)) if valid[i] else ("violation", ("pre", i))
        if outcome[i] != want:
            ok = False
        # ... and its contracts were evaluated
        if ("pre", i) not in w.log:
            ok = False
        if valid[i] and (("body", i) not in w.log):
            ok = False
    witness = switches >= 1 and not all(valid)
    note((shape, ncalls, mode, switches, tuple(o[0] for o in outcome), tuple(w.log)), witness)
    return ok, witness


def run_preempt(k: int, mode: int, va: bool, vb: bool, nested: bool) -> Tuple[bool, bool]:
    """Sync calls: while call A is inside user code (its k-th transition: condition, body, postcondition), another
    thread - modelled as another context - runs a whole call B of the same function."""
    k, mode = conc(k, 0, 2), conc(mode, 0, 3)
    nested = True if nested else False
    va, vb = (True if va else False), (True if vb else False)
    with untraced():
        w = _CACHE.get("sfunc")
        if w is None:
            w = World("sfunc")
            _CACHE["sfunc"] = w
    del w.log[:]
    if mode == 3:
        # the thread is started (context copied) while the parent is inside a contract of the same function
        parent = contextvars.Context()
        ctx_a = parent
        ctx_b_holder = []  # type: List[contextvars.Context]
    else:
        ctx_a, ctx_b = _contexts(w, mode, 2)
        ctx_b_holder = [ctx_b]
    state = {"n": 0, "b": None}  # type: Dict[str, Any]

    def hook(where: str, who: int) -> None:
        if who != 0:
            return
        n = state["n"]
        state["n"] = n + 1
        if n == k:
            if mode == 3:
                ctx_b_holder.append(contextvars.copy_context())
            cb = ctx_b_holder[0]
            w.hook = None  # B runs undisturbed

            def call_b() -> None:
                try:
                    state["b"] = ("ret", cb.run(w.call, (1, vb)))
                except Tag as err:
                    state["b"] = ("violation", err.label)
            if mode == 3:
                # a context copied while the parent is inside this transition belongs to ANOTHER thread: B really runs
                # in one (the library may tell the owner of a mark by its thread / task)
                with untraced():
                    t = threading.Thread(target=call_b)
                    t.start()
                    t.join()
            else:
                call_b()
            w.hook = hook

    w.hook = hook
    try:
        out_a = ("ret", ctx_a.run(w.call, (0, va)))  # type: Any
    except Tag as err:
        out_a = ("violation", err.label)
    w.hook = None
    ok = True
    want_a = ("ret", ("res", 0)) if va else ("violation", ("pre", 0))
    if out_a != want_a:
        ok = False
    fired = state["b"] is not None
    if fired:
        want_b = ("ret", ("res", 1)) if vb else ("violation", ("pre", 1))
        if state["b"] != want_b or ("pre", 1) not in w.log:
            ok = False
    witness = fired and not vb
    note(("preempt", k, mode, tuple(w.log)), witness)
    return ok, witness


SPAWN_SHAPES = ["sfunc_pre_post", "sfunc_pre_only", "afunc_pre_post", "afunc_pre_only", "smethod_invariant",
                "amethod_invariant"]
SPAWN_WHERE = ["precondition", "body", "postcondition"]


def _spawn_scenario(shape: str, where: str, vb: bool) -> Tuple[Any, Any, Any]:
    """A parent call of a contracted callable starts - from inside its precondition / body / postcondition - a child
    (a real thread with a copied context for sync callables, a real asyncio task for async ones).  The child calls the same
    function (or a public method of the same object) with valid / violating arguments at once, and once more after
    the parent call has returned.  Returns (parent outcome, child's first outcome, child's later outcome)."""
    is_async = shape.startswith("a")
    is_method = "method" in shape
    out = {"first": None, "later": None}  # type: Dict[str, Any]
    box = {}  # type: Dict[str, Any]

    def judge(fn: Any) -> Any:
        try:
            return ("ret", fn())
        except Tag as err:
            return ("violation", err.label)

    async def ajudge(fn: Any) -> Any:
        try:
            return ("ret", await fn())
        except Tag as err:
            return ("violation", err.label)

    if not is_async:
        def spawn(tag: str) -> None:
            if tag != where or "ctx" in box:
                return
            box["ctx"] = contextvars.copy_context()
            t = threading.Thread(target=lambda: out.__setitem__("first", box["ctx"].run(judge, box["child_call"])))
            t.start()
            t.join()

        def pre(x: Any) -> Any:
            spawn("precondition")
            return x > 0

        def post(result: Any) -> Any:
            spawn("postcondition")
            return True
        if is_method:
            class K:
                def __init__(self) -> None:
                    self.v = 1

                def work(self, x: Any) -> Any:
                    spawn("body")
                    return "res"

                def set_v(self, v: Any) -> Any:
                    self.v = v
                    return "set"
            K.work = icontract.require(pre, error=lambda: Tag("pre"))(K.work)  # type: ignore
            K = icontract.invariant(lambda self: self.v > 0, error=lambda: Tag("inv"))(K)  # type: ignore
            obj = K()

            def child_call() -> Any:
                try:
                    return obj.set_v(1 if vb else -1)
                finally:
                    obj.__dict__["v"] = 1  # (the child repairs the object so that the parent's verdict is not affected)
            box["child_call"] = child_call
            parent = lambda: obj.work(1)  # noqa: E731
        else:
            def f(x: Any) -> Any:
                spawn("body")
                return "res"
            if shape == "sfunc_pre_post":
                f = icontract.ensure(post, error=lambda: Tag("post"))(f)
            f = icontract.require(pre, error=lambda: Tag("pre"))(f)
            box["child_call"] = lambda: f(1 if vb else -1)
            parent = lambda: f(1)  # noqa: E731
        p_out = judge(parent)
        if "ctx" in box:
            t = threading.Thread(target=lambda: out.__setitem__("later", box["ctx"].run(judge, box["child_call"])))
            t.start()
            t.join()
        return p_out, out["first"], out["later"]

    # async: real tasks on a real event loop
    async def main() -> Any:
        gate = asyncio.Event()

        async def child() -> None:
            out["first"] = await ajudge(box["child_call"])
            await gate.wait()  # ... stays alive until the parent call has returned
            out["later"] = await ajudge(box["child_call"])

        async def spawn(tag: str) -> None:
            if tag != where or "task" in box:
                return
            box["task"] = asyncio.ensure_future(child())
            while out["first"] is None:
                await asyncio.sleep(0)

        async def pre(x: Any) -> Any:
            await spawn("precondition")
            return x > 0

        async def post(result: Any) -> Any:
            await spawn("postcondition")
            return True
        if is_method:
            class K:
                def __init__(self) -> None:
                    self.v = 1

                async def work(self, x: Any) -> Any:
                    await spawn("body")
                    return "res"

                async def set_v(self, v: Any) -> Any:
                    self.v = v
                    return "set"
            K.work = icontract.require(pre, error=lambda: Tag("pre"))(K.work)  # type: ignore
            K = icontract.invariant(lambda self: self.v > 0, error=lambda: Tag("inv"))(K)  # type: ignore
            obj = K()

            async def child_call() -> Any:
                try:
                    return await obj.set_v(1 if vb else -1)
                finally:
                    obj.__dict__["v"] = 1
            box["child_call"] = child_call
            parent = lambda: obj.work(1)  # noqa: E731
        else:
            async def f(x: Any) -> Any:
                await spawn("body")
                return "res"
            if shape == "afunc_pre_post":
                f = icontract.ensure(post, error=lambda: Tag("post"))(f)
            f = icontract.require(pre, error=lambda: Tag("pre"))(f)
            box["child_call"] = lambda: f(1 if vb else -1)
            parent = lambda: f(1)  # noqa: E731
        p_out = await ajudge(parent)
        gate.set()
        if "task" in box:
            await box["task"]
        return p_out
    p_out = asyncio.run(main())
    return p_out, out["first"], out["later"]


def run_spawn(shape_i: int, where_i: int, vb: bool) -> Tuple[bool, bool]:
    shape_i, where_i = conc(shape_i, 0, len(SPAWN_SHAPES) - 1), conc(where_i, 0, 2)
    vb = True if vb else False
    shape, where = SPAWN_SHAPES[shape_i], SPAWN_WHERE[where_i]
    if where == "postcondition" and not shape.endswith("pre_post"):
        return True, False
    with untraced():
        p_out, first, later = _spawn_scenario(shape, where, vb)
    if "method" in shape:
        want = ("ret", "set") if vb else ("violation", "inv")
    else:
        want = ("ret", "res") if vb else ("violation", "pre")
    ok = p_out == ("ret", "res") and first == want and later == want
    note(("spawn", shape, where, vb, first, later), not vb)
    return ok, not vb


def _abandoned_child_scenario(kind: int, how: int) -> Tuple[Any, Any]:
    """Task V starts - from inside a marked region (kind 0: the body of a public method of an object with an invariant; kind
    1: an awaiting precondition of a function f) - a child task C that suspends for good inside another checked call.  Later,
    when V's own call has long returned, C's coroutine is finalised from V (how 0: ``coro.close()``, what the garbage
    collector does to an abandoned task; how 1: ``task.cancel()``).  V's calls must still be checked afterwards.
    Returns (verdict of a violating call by V before the finalisation, the same after it)."""
    out = {}  # type: Dict[str, Any]

    async def main() -> None:
        loop = asyncio.get_running_loop()
        never = loop.create_future()
        box = {}  # type: Dict[str, Any]

        async def judge(fn: Any) -> Any:
            try:
                return ("ret", await fn())
            except Tag as err:
                return ("violation", err.label)
        if kind == 0:
            class Account:
                def __init__(self) -> None:
                    self.balance = 10

                async def transfer(self) -> None:
                    box["task"] = asyncio.ensure_future(self.audit())
                    await asyncio.sleep(0)

                async def audit(self) -> None:
                    await never

                async def withdraw(self, amount: int) -> None:
                    self.balance -= amount
            cls = icontract.invariant(lambda self: self.balance >= 0, error=lambda: Tag("inv"))(Account)
            account = cls()

            async def violating() -> Any:
                try:
                    return await account.withdraw(1000)
                finally:
                    account.__dict__["balance"] = 10
            await account.transfer()
        else:
            async def g_pre(x: Any) -> Any:
                await never
                return True

            @icontract.require(g_pre, error=lambda: Tag("g.pre"))
            async def g(x: Any) -> Any:
                return x

            async def f_pre(x: Any) -> Any:
                if "task" not in box:
                    box["task"] = asyncio.ensure_future(g(1))
                    await asyncio.sleep(0)
                return x > 0

            @icontract.require(f_pre, error=lambda: Tag("f.pre"))
            async def f(x: Any) -> Any:
                return x

            async def violating() -> Any:
                return await f(-1)
            await f(1)
        out["before"] = await judge(violating)
        task = box["task"]
        if how == 0:
            task.get_coro().close()
        task.cancel()
        try:
            await task
        except BaseException:  # noqa: B902  (CancelledError / RuntimeError of the closed coroutine)
            pass
        out["after"] = await judge(violating)
    import warnings
    with warnings.catch_warnings():
        warnings.simplefilter("ignore")
        asyncio.run(main())
    return out.get("before"), out.get("after")


def run_abandoned_child(kind: int, how: int) -> Tuple[bool, bool]:
    kind, how = conc(kind, 0, 1), conc(how, 0, 1)
    with untraced():
        before, after = _abandoned_child_scenario(kind, how)
    want = ("violation", "inv") if kind == 0 else ("violation", "f.pre")
    note(("abandoned_child", kind, how, before, after), True)
    return before == want and after == want, True


ALL = ["mode", "s0", "s1", "s2", "s3", "s4", "s5", "s6", "s7", "s8", "v0", "v1", "v2"]


def harnesses(tier: str) -> List[H]:
    out = []  # type: List[H]
    for shape in ("afunc", "amethod"):
        for ncalls in (2, 3):
            if tier == "quick":
                nsched = 7 if ncalls == 2 else 4
            else:
                nsched = 9 if ncalls == 2 else 6
            for mode in range(3):
                params = [I("s%d" % i, 0, ncalls - 1) for i in range(nsched)] + [B("v%d" % i) for i in range(ncalls)]
                defaults = {"mode": mode, "v2": True}  # type: Dict[str, Any]
                for i in range(nsched, 9):
                    defaults["s%d" % i] = 0
                name = "sched_{}_{}calls_{}".format(shape, ncalls, MODES[mode])
                out.append(H(name, bind(run_sched, (shape, ncalls), ALL, defaults, [p.name for p in params]), params,
                             tiers=(tier,), timeout=900 if tier == "quick" else 3600,
                             replay_env={"VERIF_REAL_LOOP": "1"},
                             family="{} concurrent calls of one contracted {} (awaiting precondition, body suspending twice, "
                                    "postcondition); every interleaving of their suspension points under {} schedule choices; "
                                    "context mode {}; each call valid or violating".format(
                                        ncalls, "async function" if shape == "afunc" else
                                        "async method of ONE object with an invariant", nsched, MODES[mode]),
                             family_size=ncalls ** nsched))
    params = [I("k", 0, 2), I("mode", 0, 3), B("va"), B("vb")]
    out.append(H("preempt_sync", bind(run_preempt, (), ["k", "mode", "va", "vb", "nested"], {"nested": False},
                                      [p.name for p in params]), params, tiers=(tier,), timeout=600,
                 family="sync function: while call A is inside its precondition / body / postcondition another context "
                        "(thread) runs a complete call B; 4 context-inheritance modes: fresh, copied before / after the parent "
                        "ran contracted code, and (mode 3) copied WHILE the parent is inside that transition - the last "
                        "one inside a condition is the known finding KF-C12-1", family_size=3 * 4 * 4))
    sp = [I("shape_i", 0, len(SPAWN_SHAPES) - 1), I("where_i", 0, 2), B("vb")]
    out.append(H("spawn_from_inside", bind(run_spawn, (), ["shape_i", "where_i", "vb"], {}, ["shape_i", "where_i", "vb"]), sp,
                 tiers=(tier,), timeout=600,
                 family="a parent call of {} starts, from inside its {}, a child with a copy of its context (a real thread for "
                        "sync callables, a real asyncio task for async ones); the child makes a valid / violating call of the "
                        "same function (a public method of the same object) at once and again after the parent has returned; "
                        "run natively - the solver only exhausts the selector product".format(SPAWN_SHAPES, SPAWN_WHERE),
                 family_size=len(SPAWN_SHAPES) * 3 * 2))
    out.append(H("abandoned_child", bind(run_abandoned_child, (), ["kind", "how"], {}, ["kind", "how"]),
                 [I("kind", 0, 1), I("how", 0, 1)], tiers=(tier,), timeout=300,
                 family="real asyncio tasks: a child task created inside a marked region (method body of an object with an "
                        "invariant / awaiting precondition) suspends for good inside another checked call and is later finalised "
                        "from its creator (coroutine closed as the garbage collector does / task cancelled); the creator's "
                        "violating call is judged before and after (run natively)", family_size=4))
    return out
