"""C17 - defining a class or decorating a function never changes another's contracts."""
from typing import Any, Dict, List, Optional, Tuple

import icontract
import icontract._checkers

from vfw.build import mkfn
from vfw.hlib import Tag, conc, fresh, note, untraced
from vfw.hspec import B, H, I, bind

ON = [icontract.InvariantCheckEvent.CALL, icontract.InvariantCheckEvent.SETATTR, icontract.InvariantCheckEvent.ALL]
STEPS = ["subclass_plain", "subclass_override_pre_post", "subclass_own_invariant", "subclass_override_snapshot_post",
         "class_two_bases", "decorate_fresh_function", "decorate_same_bare_again", "subclass_override_bare",
         "class_with_mixin_own_invariant", "subclass_property_new_setter", "subclass_property_new_getter",
         "posthoc_require_on_bare_override", "subclass_aliases_base_function", "two_bases_property_accessor_reuse",
         "posthoc_require_on_bare_property_override"]


#: quick tier: with a SETATTR invariant on the root class only these kinds are tried as the FIRST step (all kinds as the second)
QUICK_SETATTR_FIRST_STEPS = ("subclass_own_invariant", "class_with_mixin_own_invariant",
                             "posthoc_require_on_bare_property_override", "decorate_same_bare_again")


class World:
    def __init__(self, a_on: int) -> None:
        self.truth = {}  # type: Dict[str, Any]
        self.log = []  # type: List[str]
        self.classes = []  # type: List[type]
        self.funcs = []  # type: List[Any]
        self.bare0 = None  # type: Any
        self.counter = 0
        self.setup = True
        w = self
        A = self.new_class("A", (icontract.DBC,), override=True, pre=True, post=True, snap=True)
        A = self.add_invariant(A, a_on)
        self.classes.append(A)

        def bare0(x: Any) -> Any:
            return "f"
        self.bare0 = bare0
        self.funcs.append(icontract.require(self.cond("f0.pre", ("x",)), error=self.err("f0.pre"))(bare0))

    # -- building blocks ----------------------------------------------------------------------
    def cond(self, name: str, params: Tuple[str, ...]) -> Any:
        w = self

        def impl(kw: Dict[str, Any]) -> Any:
            if w.setup:
                return True
            w.log.append(name)
            return w.truth.get(name, True)
        return mkfn(params, impl, name=name.replace(".", "_"))

    def err(self, name: str) -> Any:
        return lambda: Tag(name)

    def new_class(self, name: str, bases: Tuple[type, ...], override: bool, pre: bool = False, post: bool = False,
                  snap: bool = False) -> type:
        ns = {}  # type: Dict[str, Any]
        if override:
            def m(self: Any, x: Any) -> Any:
                return name
            f = m  # type: Any
            if post:
                f = icontract.ensure(self.cond(name + ".post", ("result", "x")), error=self.err(name + ".post"))(f)
            if snap:
                f = icontract.snapshot(mkfn(("x",), lambda kw: 0, name="cap"), name="snap_" + name)(f)
            if pre:
                f = icontract.require(self.cond(name + ".pre", ("x",)), error=self.err(name + ".pre"))(f)
            ns["m"] = f
        if name == "A":
            def p_get(self: Any) -> Any:
                return 1

            def p_set(self: Any, value: Any) -> None:
                return None
            g = icontract.ensure(self.cond("A.p.get.post", ("result",)), error=self.err("A.p.get.post"))(p_get)
            g = icontract.require(self.cond("A.p.get.pre", ("self",)), error=self.err("A.p.get.pre"))(g)
            st = icontract.ensure(self.cond("A.p.set.post", ("self",)), error=self.err("A.p.set.post"))(p_set)
            ns["p"] = property(g, st)
        return icontract.DBCMeta(name, bases, ns)

    def add_invariant(self, cls: type, on: int) -> type:
        name = cls.__name__ + ".inv"
        return icontract.invariant(self.cond(name, ("self",)), error=self.err(name), check_on=ON[on])(cls)

    def fresh_name(self, prefix: str) -> str:
        self.counter += 1
        return "{}{}".format(prefix, self.counter)

    # -- one definition step --------------------------------------------------------------------
    def step(self, kind: int, j: int, k: int, on: int) -> str:
        classes = self.classes
        base = classes[j % len(classes)]
        what = STEPS[kind]
        try:
            if what == "subclass_plain":
                classes.append(self.new_class(self.fresh_name("S"), (base,), override=False))
            elif what == "subclass_override_bare":
                classes.append(self.new_class(self.fresh_name("S"), (base,), override=True))
            elif what == "subclass_override_pre_post":
                classes.append(self.new_class(self.fresh_name("S"), (base,), override=True, pre=True, post=True))
            elif what == "subclass_own_invariant":
                cls = self.new_class(self.fresh_name("S"), (base,), override=False)
                classes.append(self.add_invariant(cls, on))
            elif what == "subclass_override_snapshot_post":
                classes.append(self.new_class(self.fresh_name("S"), (base,), override=True, post=True, snap=True))
            elif what == "class_two_bases":
                other = classes[k % len(classes)]
                if other is base or issubclass(base, other) or issubclass(other, base):
                    return "skipped"
                classes.append(self.new_class(self.fresh_name("M"), (base, other), override=(on == 1), pre=(on == 1)))
            elif what == "class_with_mixin_own_invariant":
                # class X(base, Mixin) / class X(Mixin, base) with a fresh contract-less DBC mixin, then an own invariant
                mixin = icontract.DBCMeta(self.fresh_name("Mixin"), (icontract.DBC,), {})
                bases = (base, mixin) if k % 2 == 0 else (mixin, base)
                cls = self.new_class(self.fresh_name("X"), bases, override=False)
                classes.append(self.add_invariant(cls, on))
            elif what in ("subclass_property_new_setter", "subclass_property_new_getter"):
                # re-define only one accessor of the inherited property; the other one is re-used from the base as it is
                n = self.fresh_name("S")
                if what == "subclass_property_new_setter":
                    def new_set(self: Any, value: Any) -> None:
                        return None
                    prop = base.p.setter(new_set)
                else:
                    def new_get(self: Any) -> Any:
                        return 2
                    prop = base.p.getter(new_get)
                classes.append(icontract.DBCMeta(n, (base,), {"p": prop}))
            elif what == "posthoc_require_on_bare_override":
                # a subclass overrides m without own contracts; a precondition is added to that override afterwards
                n = self.fresh_name("S")
                cls = self.new_class(n, (base,), override=True)
                classes.append(cls)
                try:
                    cls.m = icontract.require(self.cond(n + ".pre", ("x",)), error=self.err(n + ".pre"))(cls.m)
                except AssertionError:
                    # the library refuses (by an assertion) to add a precondition to a member which already carries
                    # several merged groups; that is a refusal of this step, everything else must still be unchanged
                    return "rejected:AssertionError"
            elif what == "posthoc_require_on_bare_property_override":
                # a subclass re-defines the accessors of p with new functions and no contracts of their own; a precondition is
                # added to the new getter (k even) or setter (k odd) afterwards
                n = self.fresh_name("S")

                def own_get(self: Any) -> Any:
                    return 4

                def own_set(self: Any, value: Any) -> None:
                    return None
                cls = icontract.DBCMeta(n, (base,), {"p": property(own_get, own_set)})
                classes.append(cls)
                acc = cls.__dict__["p"].fget if k % 2 == 0 else cls.__dict__["p"].fset
                try:
                    icontract.require(self.cond(n + ".pre", ("self",)), error=self.err(n + ".pre"))(acc)
                except AssertionError:
                    return "rejected:AssertionError"  # (see posthoc_require_on_bare_override)
            elif what == "subclass_aliases_base_function":
                # class R(base, Other): m = base.m   where Other.m has no preconditions
                other = icontract.DBCMeta(self.fresh_name("Other"), (icontract.DBC,), {"m": (lambda self, x: "other")})
                n = self.fresh_name("R")
                classes.append(icontract.DBCMeta(n, (base, other), {"m": base.m}))
            elif what == "two_bases_property_accessor_reuse":
                # class C(Gauge, base) with a fresh base Gauge that has a contracted property p of its own; C re-uses the
                # getter of ``base`` as it is and supplies a new setter
                n = self.fresh_name("Gauge")

                def g_get(self: Any) -> Any:
                    return 3
                gauge = icontract.DBCMeta(n, (icontract.DBC,), {"p": property(
                    icontract.ensure(self.cond(n + ".p.post", ("result",)), error=self.err(n + ".p.post"))(g_get))})

                def new_set2(self: Any, value: Any) -> None:
                    return None
                order = (gauge, base) if k % 2 == 0 else (base, gauge)
                classes.append(icontract.DBCMeta(self.fresh_name("C"), order, {"p": base.p.setter(new_set2)}))
            elif what == "decorate_fresh_function":
                n = self.fresh_name("g")

                def g(x: Any) -> Any:
                    return n
                f = icontract.ensure(self.cond(n + ".post", ("result",)), error=self.err(n + ".post"))(g)
                self.funcs.append(icontract.require(self.cond(n + ".pre", ("x",)), error=self.err(n + ".pre"))(f))
            elif what == "decorate_same_bare_again":
                n = self.fresh_name("again")
                self.funcs.append(icontract.require(self.cond(n + ".pre", ("x",)), error=self.err(n + ".pre"))(self.bare0))
        except (TypeError, ValueError) as err:
            return "rejected:" + type(err).__name__
        return "done"


def _names(contracts: Any) -> Tuple[str, ...]:
    return tuple(c.condition.__name__ for c in contracts)


def fingerprint(w: World) -> Tuple[Any, ...]:
    """Contents (not identities) of the documented lists of everything defined so far."""
    out = []  # type: List[Any]
    for cls in w.classes:
        entry = [cls.__name__]  # type: List[Any]
        for attr in ("__invariants__", "__invariants_on_call__", "__invariants_on_setattr__"):
            entry.append(_names(getattr(cls, attr, ())))
        m = cls.__dict__.get("m")
        if m is not None:
            chk = icontract._checkers.find_checker(m)
            if chk is None:
                entry.append("no-checker")
            else:
                entry.append(tuple(_names(g) for g in chk.__preconditions__))
                entry.append(_names(chk.__postconditions__))
                entry.append(tuple(s.name for s in chk.__postcondition_snapshots__))
        else:
            entry.append("inherits-m")
        prop = cls.__dict__.get("p")
        if prop is not None:
            for acc in (prop.fget, prop.fset):
                chk = icontract._checkers.find_checker(acc) if acc is not None else None
                if chk is None:
                    entry.append("no-checker")
                else:
                    entry.append((tuple(_names(g) for g in chk.__preconditions__), _names(chk.__postconditions__)))
        out.append(tuple(entry))
    for f in w.funcs:
        chk = icontract._checkers.find_checker(f)
        out.append((tuple(_names(g) for g in chk.__preconditions__), _names(chk.__postconditions__)))
    return tuple(out)


def probe(w: World, n_classes: int, n_funcs: int) -> List[Tuple[Any, ...]]:
    """Run-time verdicts of the first n classes / functions under the current truth assignment."""
    res = []  # type: List[Tuple[Any, ...]]
    for cls in w.classes[:n_classes]:
        w.setup = True
        inst = cls()
        w.setup = False
        for op in ("call", "setattr", "prop_get", "prop_set"):
            del w.log[:]
            try:
                if op == "call":
                    inst.m(1)
                elif op == "prop_get":
                    inst.p
                elif op == "prop_set":
                    inst.p = 1
                else:
                    inst.zz = 1
                out = "ret"
            except Tag as err:
                out = err.label
            res.append((cls.__name__, op, out, tuple(w.log)))
    for i, f in enumerate(w.funcs[:n_funcs]):
        del w.log[:]
        try:
            f(1)
            out = "ret"
        except Tag as err:
            out = err.label
        res.append(("func", i, out, tuple(w.log)))
    return res


def run_history(a_on: int, nsteps: int, k0: int, j0: int, c0: int, k1: int, j1: int, c1: int, k2: int, j2: int, c2: int,
                k3: int, j3: int, c3: int, ta_pre: bool, ta_post: bool, ta_inv: bool, tf_pre: bool,
                ts_pre: bool, ts_inv: bool) -> Tuple[bool, bool]:
    a_on, nsteps = conc(a_on, 0, 2), conc(nsteps, 1, 4)
    steps = [(conc(k, 0, len(STEPS) - 1), conc(j, 0, 3), conc(c, 0, 2)) for (k, j, c) in
             ((k0, j0, c0), (k1, j1, c1), (k2, j2, c2), (k3, j3, c3))[:nsteps]]
    truth = {"A.pre": ta_pre, "A.post": ta_post, "A.inv": ta_inv, "f0.pre": tf_pre}
    with untraced():
        w = World(a_on)
    w.truth = truth
    ok = True
    done = []
    changed_something = False
    for (kind, j, c) in steps:
        with untraced():
            n_cls, n_fun = len(w.classes), len(w.funcs)
            before = fingerprint(w)
        # truth for the contracts of later-defined subclasses: two shared symbolic bits
        for cls in w.classes:
            w.truth.setdefault(cls.__name__ + ".pre", ts_pre)
            w.truth.setdefault(cls.__name__ + ".inv", ts_inv)
        verdicts_before = fresh(probe, w, n_cls, n_fun)
        with untraced():
            status = w.step(kind, j, j + 1, c)
            after = fingerprint(w)
        for cls in w.classes:
            w.truth.setdefault(cls.__name__ + ".pre", ts_pre)
            w.truth.setdefault(cls.__name__ + ".inv", ts_inv)
        verdicts_after = fresh(probe, w, n_cls, n_fun)
        if after[:n_cls] != before[:n_cls]:
            ok = False
        if after[len(w.classes):len(w.classes) + n_fun] != before[n_cls:n_cls + n_fun]:
            ok = False
        if verdicts_after != verdicts_before:
            ok = False
        done.append((STEPS[kind], j, c, status))
        if status == "done":
            changed_something = True
    note((a_on, tuple(done)), changed_something)
    return ok, changed_something


ALL = ["a_on", "nsteps", "k0", "j0", "c0", "k1", "j1", "c1", "k2", "j2", "c2", "k3", "j3", "c3",
       "ta_pre", "ta_post", "ta_inv", "tf_pre", "ts_pre", "ts_inv"]


def harnesses(tier: str) -> List[H]:
    out = []  # type: List[H]
    nsteps = 2
    for a_on in (range(2) if tier == "quick" else range(3)):
        for k0 in range(len(STEPS)):
            if tier == "quick" and a_on == 1 and STEPS[k0] not in QUICK_SETATTR_FIRST_STEPS:
                continue
            params = [I("j0", 0, 0), I("c0", 0, 1 if tier == "quick" else 2)]
            for i in range(1, nsteps):
                # quick tier: the steps choose between CALL and SETATTR only (ALL is in the thorough tier)
                params += [I("k%d" % i, 0, len(STEPS) - 1), I("j%d" % i, 0, i), I("c%d" % i, 0, 1 if tier == "quick" else 2)]
            params += [B("ta_inv"), B("ts_inv")]
            defaults = {"a_on": a_on, "nsteps": nsteps, "k0": k0, "ta_pre": True, "ta_post": True, "tf_pre": True,
                        "ts_pre": True}  # type: Dict[str, Any]
            if tier == "thorough" and a_on == 0:
                params += [B("ta_pre"), B("ts_pre")]
            for i in range(nsteps, 4):
                defaults.update({"k%d" % i: 0, "j%d" % i: 0, "c%d" % i: 0})
            out.append(H("history_on{}_{}".format(a_on, STEPS[k0]),
                         bind(run_history, (), ALL, defaults, [p.name for p in params]), params, tiers=(tier,),
                         timeout=900 if tier == "quick" else 5400,
                         family="base class A(DBC) (method m with pre/post/snapshot, invariant check_on={}) and a contracted "
                                "function; then {} definition steps (first: {}) from {}, each with a target class and a "
                                "check_on selector; after every step the documented lists and the run-time verdicts of "
                                "everything defined earlier are compared with before".format(
                                    ["CALL", "SETATTR", "ALL"][a_on], nsteps, STEPS[k0], STEPS),
                         family_size=3 * (len(STEPS) * 3 * 3) ** (nsteps - 1)))
    return out
