"""C02 - postconditions gate every normal return; results and exceptions pass unchanged."""
from typing import Any, Dict, List, Tuple

from vfw.build import RT, get_built, invoke, identify, raised_types
from vfw.hlib import BodyBase, BodyError, BodyKbd, Tag, conc, fresh, note
from vfw.hspec import B, H, I, bind
from vfw.prog import ALL_KINDS, ASYNC_KINDS, CTOR_KINDS, Level, Prog, effective, expect

MARK = object()
N_OUTCOMES = 10


def _levels(kind: str, p0: int, d1: int, p1: int, snaps: int, pre: int, fg: bool) -> Tuple[Level, ...]:
    l0 = Level(defines=True, pre=pre, post=p0, snaps=snaps if p0 else 0, foreign=fg and (kind == "func" or d1 == 0))
    if kind == "func" or d1 == 0:
        return (l0,)
    if d1 == 1:
        return (l0, Level(defines=False))
    return (l0, Level(defines=True, post=p1, foreign=fg))


def run_post(kind: str, is_async: bool, mode: str, p0: int, d1: int, p1: int, snaps: int, pre: int, bo: int, fg: bool,
             t0: bool, t1: bool, t2: bool, t3: bool, t4: bool, x: int) -> Tuple[bool, bool]:
    p0, d1, p1, snaps, pre, bo = conc(p0, 0, 3), conc(d1, 0, 2), conc(p1, 0, 2), conc(snaps, 0, 1), conc(pre, 0, 1), conc(bo, 0, N_OUTCOMES - 1)
    if bo == 7 and is_async:
        bo = 6  # StopIteration cannot leave a coroutine (Python turns it into RuntimeError itself)
    fg = True if fg else False  # a foreign functools.wraps decorator on top of the (most derived) contract stack
    prog = Prog(kind=kind, is_async=is_async, levels=_levels(kind, p0, d1, p1, snaps, pre, fg))
    truths = [t0, t1, t2, t3, t4]
    offset = {0: 0, 1: p0}

    def tv(role: str, lvl: int, i: int, when: Any) -> Any:
        if role != "post":
            return True
        return truths[offset[lvl] + i]

    arg = [x]  # a mutable argument object
    state = {}  # type: Dict[str, Any]

    def body(kw: Dict[str, Any]) -> Any:
        if bo == 0:
            res = None  # type: Any
        elif bo == 1:
            res = 0
        elif bo == 2:
            res = ""
        elif bo == 3:
            res = []
        elif bo == 4:
            res = object()
        elif bo == 5:
            arg.append(MARK)
            res = arg
        else:
            exc = {6: BodyError, 7: StopIteration, 8: BodyBase, 9: BodyKbd}[bo]()
            state["exc"] = exc
            raise exc
        state["res"] = res
        return res

    built = get_built(prog, mode)
    rt = RT(tv=tv, body=body, error_mode=mode)
    built.rt = rt
    body_raises = bo >= 6

    catch = (Tag, AssertionError, BodyError, StopIteration, BodyBase, BodyKbd) + raised_types(built)
    try:
        got = fresh(invoke, built, arg)
        raised = None
    except catch as err:  # noqa: B030
        got = None
        raised = err

    exp_events, exp_out = expect(prog, tv, body_raises=body_raises)
    ok = True
    post_events = [e for e in rt.log if e[0] == "post"]
    exp_posts = [e for e in exp_events if e[0] == "post"]
    if body_raises:
        # the very exception object reaches the caller, no postcondition evaluated
        if raised is not state.get("exc"):
            ok = False
        if post_events:
            ok = False
    else:
        # every postcondition up to and including the first falsy one was evaluated (C02 does not
        # constrain the order - that is C16 - so compare as sets)
        if sorted(post_events) != sorted(exp_posts):
            ok = False
        # ... against the returned object, the argument object in its post-body state, and OLD
        eff = effective(prog)
        for (label, kw) in rt.seen:
            if label[0] != "post":
                continue
            if kind == "new":
                if not isinstance(kw.get("result"), built.classes[-1]):
                    ok = False
            elif kind == "init":
                if kw.get("result", MARK) is not None:
                    ok = False
            elif kw.get("result", MARK) is not state.get("res", MARK):
                ok = False
            if "x" in kw:
                if kw["x"] is not arg:
                    ok = False
                elif bo == 5 and (len(kw["x"]) != 2 or kw["x"][1] is not MARK):
                    ok = False
            if eff.snaps and eff.posts:
                if "OLD" not in kw or getattr(kw["OLD"], "s_0_0", None) != ("captured", 0, 0):
                    ok = False
        if exp_out[0] == "ret":
            if raised is not None:
                ok = False
            elif kind == "new":
                if not isinstance(got, built.classes[-1]):
                    ok = False
            elif kind in ("init",):
                if not isinstance(got, built.classes[-1]):
                    ok = False
            elif kind in ("prop_set", "prop_del"):
                pass
            elif got is not state.get("res", MARK):
                ok = False
        else:
            if raised is None:
                ok = False
            else:
                label = identify(built, raised)
                if label is None or label[0] != "post":
                    ok = False
                elif tv("post", label[1], label[2], None):
                    ok = False
    # contracts of the property's other accessors must never be evaluated for this accessor
    if any(e[0] == "sibling" for e in rt.log):
        ok = False
    witness = (body_raises and raised is not None) or (exp_out[0] == "violation" and raised is not None)
    note((kind, is_async, mode, p0, d1, p1, snaps, pre, bo, fg, tuple(rt.log), exp_out[0]), witness)
    return ok, witness


_TWO_BASES = {}  # type: Dict[Any, Any]
TB_KINDS = ["method", "classmethod", "staticmethod", "dunder_str"]


def run_two_bases_post(kind_i: int, order: int, mixin_defines: bool, tq: bool) -> Tuple[bool, bool]:
    """class Third(Contracted, Mixin) / Third(Mixin, Contracted): Contracted.m has a postcondition, the plain mix-in provides m
    without any contract (or, for ``__str__``, merely inherits it from ``object``); Third overrides m without own contracts and
    still has to satisfy the inherited postcondition."""
    import icontract
    from vfw.hlib import untraced
    kind_i, order = conc(kind_i, 0, len(TB_KINDS) - 1), conc(order, 0, 1)
    mixin_defines = True if mixin_defines else False
    kind = TB_KINDS[kind_i]
    key = (kind, order, mixin_defines)
    with untraced():
        w = _TWO_BASES.get(key)
        if w is None:
            w = {"truth": True, "log": []}
            hw = w
            name = "__str__" if kind == "dunder_str" else "m"
            first = {"method": "self", "classmethod": "cls", "staticmethod": "", "dunder_str": "self"}[kind]

            def wrap(f: Any) -> Any:
                return {"classmethod": classmethod, "staticmethod": staticmethod}.get(kind, lambda g: g)(f)

            def mkbody(label: str) -> Any:
                ns = {"hw": hw}  # type: Dict[str, Any]
                exec("def {}({}):\n    hw['log'].append('body')\n    return {!r}\n".format(name, first, label), ns)
                return ns[name]

            def post(result: Any) -> Any:
                hw["log"].append("post")
                return hw["truth"]
            contracted = icontract.DBCMeta("Contracted", (icontract.DBC,), {
                name: wrap(icontract.ensure(post, error=lambda: Tag("post"))(mkbody("contracted")))})
            mixin = type("Mixin", (), {name: wrap(mkbody("mixin"))} if mixin_defines else {})
            bases = (contracted, mixin) if order == 0 else (mixin, contracted)
            third = icontract.DBCMeta("Third", bases, {name: wrap(mkbody("third"))})
            inst = third()
            if kind == "dunder_str":
                w["call"] = lambda: inst.__str__()
            elif kind in ("classmethod", "staticmethod"):
                w["call"] = lambda: third.m()
            else:
                w["call"] = lambda: inst.m()
            _TWO_BASES[key] = w
    w["truth"] = tq
    del w["log"][:]
    try:
        got = ("ret", fresh(w["call"]))  # type: Tuple[str, Any]
    except Tag as err:
        got = ("tag", err.label)
    want = ("ret", "third") if tq else ("tag", "post")
    ok = got == want and w["log"] == ["body", "post"]
    note(("two_bases_post", kind, order, mixin_defines, got[0]), not tq)
    return ok, not tq


ALL = ["p0", "d1", "p1", "snaps", "pre", "bo", "fg", "t0", "t1", "t2", "t3", "t4", "x"]


def _mk(kind: str, is_async: bool, mode: str, params: List[Any]):  # type: ignore
    defaults = {"d1": 0, "p1": 0, "t3": True, "t4": True, "pre": 0}
    return bind(run_post, (kind, is_async, mode), ALL, defaults, [p.name for p in params])


def harnesses(tier: str) -> List[H]:
    out = []  # type: List[H]
    TB = ["kind_i", "order", "mixin_defines", "tq"]
    out.append(H("two_bases_post", bind(run_two_bases_post, (), TB, {}, TB),
                 [I("kind_i", 0, len(TB_KINDS) - 1), I("order", 0, 1), B("mixin_defines"), B("tq")], tiers=(tier,), timeout=200,
                 family="class Third(Contracted, Mixin) in both base orders; member kinds {}; the plain mix-in defines the member "
                        "without contracts or not at all; Third overrides it without own contracts".format(TB_KINDS),
                 family_size=len(TB_KINDS) * 4))
    for kind in ALL_KINDS:
        for is_async in (False, True):
            if is_async and kind not in ASYNC_KINDS:
                continue
            if tier == "quick":
                modes = ["factory", "default"] if (kind in ("func", "method") and not is_async) else ["factory"]
                if kind in ("func", "method"):
                    modes = modes + ["falsy_factory"]
            else:
                modes = ["factory", "default", "class", "instance", "falsy_factory"]
            for mode in modes:
                name = "post_{}{}_{}".format(kind, "_async" if is_async else "", mode)
                # thorough = every error form for every kind (quick: 1-3 forms); the deeper stacks only for the factory form
                deep = tier == "thorough" and mode == "factory" and not is_async
                p0hi = 3 if kind == "func" or deep else 2
                p1hi = 2 if deep else 1
                params = [I("p0", 0, p0hi)]
                if kind != "func":
                    params += [I("d1", 0, 2), I("p1", 0, p1hi)]
                params += [I("snaps", 0, 1)]
                if kind == "func" or deep:
                    params += [I("pre", 0, 1)]
                params += [I("bo", 0, N_OUTCOMES - 1), B("fg"), B("t0"), B("t1"), B("t2")]
                if kind != "func" and p0hi + p1hi > 3:
                    params += [B("t3")] + ([B("t4")] if p0hi + p1hi > 4 else [])
                params += [I("x", -4, 12)]
                out.append(H(name, _mk(kind, is_async, mode, params), params, tiers=(tier,),
                             timeout=300 if tier == "quick" else (2400 if deep else 900),
                             family="kind={} async={} error={}; own postconditions 0..{}, optional subclass level "
                                    "(absent / not overriding / overriding with 0..{} own postconditions), snapshot 0..1, "
                                    "precondition 0..1 (func and thorough tier), body outcome in {{None, 0, '', [], object(), mutated argument, "
                                    "raise Exception, StopIteration, BaseException, KeyboardInterrupt subclass}}; with / without a foreign "
                                    "functools.wraps decorator on top of the most derived contract stack".format(
                                        kind, is_async, mode, p0hi, p1hi),
                             family_size=(p0hi + 1) * ((2 + p1hi + 1) if kind != "func" else 1) * 2 * N_OUTCOMES))
    return out
