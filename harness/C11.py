"""C11 - checking is re-armed after every outcome: no sticky suspension, no lost error."""
import asyncio
import contextvars
import reprlib
from typing import Any, Dict, List, Optional, Tuple

import icontract

from vfw.hlib import RecRepr, Suspend, Tag, conc, note, untraced
from vfw.hspec import B, H, I, bind


class FExc(Exception):
    pass


class FBase(BaseException):
    pass


class FKbd(KeyboardInterrupt):
    pass


class FStop(StopIteration):
    pass


KINDS = ["exception", "base_exception", "keyboard_interrupt", "cancelled", "stop_iteration"]
KIND_CLS = [FExc, FBase, FKbd, asyncio.CancelledError, FStop]
CATCH = (Tag, AssertionError, FExc, FBase, FKbd, asyncio.CancelledError, ValueError, RuntimeError, TypeError, StopIteration)


class Boolish:
    """A condition result whose truth test is itself a transition into user code."""

    def __init__(self, w: "World", value: Any, name: str) -> None:
        self.w, self.value, self.name = w, value, name

    def __bool__(self) -> bool:
        self.w.tick("bool:" + self.name)
        return True if self.value else False


class Val:
    """An argument value whose __repr__ is a transition into user code."""

    def __init__(self, w: "World") -> None:
        self.w = w

    def __repr__(self) -> str:
        self.w.tick("repr")
        return "<val>"


class World:
    """One contracted program; all user callbacks go through ``tick`` which injects the fault."""

    def __init__(self, shape: str, mode: str) -> None:
        self.shape, self.mode = shape, mode
        self.count = 0
        self.k = -1
        self.kind = 0
        self.injected = None  # type: Optional[BaseException]
        self.truth = {}  # type: Dict[str, Any]
        self.log = []  # type: List[str]
        self.boolish = False
        self.break_on_fault = False
        w = self

        class Rec(RecRepr):
            def repr(self, x: Any) -> str:  # noqa: A003
                w.tick("a_repr")
                return "<v>"

        if mode == "default_rec":
            kw = lambda name: {"a_repr": Rec()}  # noqa: E731
        elif mode == "default_reprlib":
            kw = lambda name: {"a_repr": reprlib.Repr()}  # noqa: E731
        elif mode == "class":
            kw = lambda name: {"a_repr": Rec(), "error": ValueError}  # noqa: E731
        else:
            def kw(name: str) -> Dict[str, Any]:
                def err() -> Exception:
                    w.tick("err:" + name)
                    return Tag(name)
                return {"error": err}

        def cond(name: str, params: str):  # type: ignore
            def impl() -> Any:
                w.tick(name)
                v = w.truth.get(name, True)
                return Boolish(w, v, name) if w.boolish else v
            ns = {"impl": impl}  # type: Dict[str, Any]
            exec("def {}({}):\n    return impl()\n".format(name, params), ns)
            return ns[name]

        def acond(name: str, params: str):  # type: ignore
            async def impl() -> Any:
                w.tick(name)
                await Suspend()
                v = w.truth.get(name, True)
                return Boolish(w, v, name) if w.boolish else v
            ns = {"impl": impl}  # type: Dict[str, Any]
            exec("async def {}({}):\n    return await impl()\n".format(name, params), ns)
            return ns[name]

        if shape == "func":
            def f(x: Any) -> Any:
                w.tick("body")
                return "res"
            g = icontract.ensure(cond("post0", "result, x, OLD"), **kw("post0"))(f)
            g = icontract.snapshot(lambda x: (w.tick("cap"), "old")[1], name="snap")(g)
            g = icontract.require(cond("pre1", "x"), **kw("pre1"))(g)
            g = icontract.require(cond("pre0", "x"), **kw("pre0"))(g)
            self.call = g
        elif shape == "afunc":
            async def af(x: Any) -> Any:
                w.tick("body")
                await Suspend()
                await Suspend()
                return "res"

            async def acap(x: Any) -> Any:
                w.tick("cap")
                await Suspend()
                return "old"
            g = icontract.ensure(acond("post0", "result, x, OLD"), **kw("post0"))(af)
            g = icontract.snapshot(acap, name="snap")(g)
            g = icontract.require(acond("pre1", "x"), **kw("pre1"))(g)
            g = icontract.require(cond("pre0", "x"), **kw("pre0"))(g)
            self.call = g
        elif shape in ("method", "amethod"):
            if shape == "method":
                def m(self: Any, x: Any) -> Any:
                    w.tick("body")
                    return "res"
            else:
                async def m(self: Any, x: Any) -> Any:  # type: ignore
                    w.tick("body")
                    await Suspend()
                    return "res"
            m.__name__ = "m"
            m2 = icontract.require(cond("pre0", "x"), **kw("pre0"))(m)

            def __init__(self: Any) -> None:
                w.tick("init")
            cls = type("K", (), {"__init__": __init__, "m": m2})
            cls = icontract.invariant(cond("inv0", "self"), **kw("inv0"))(cls)
            saved = self.truth
            self.obj = cls()
            self.cls = cls
            self.call = lambda x: self.obj.m(x)
        else:
            raise ValueError(shape)

    def tick(self, name: str) -> None:
        self.log.append(name)
        c = self.count
        self.count += 1
        if c == self.k:
            self.k = -1
            exc = KIND_CLS[self.kind]()
            self.injected = exc
            if name == "body" and self.break_on_fault:
                # the body updated the object first and fails afterwards: the invariant does not hold any more
                self.truth["inv0"] = False
            raise exc


_CACHE = {}  # type: Dict[Tuple[str, str], World]


def _is_async(shape: str) -> bool:
    return shape in ("afunc", "amethod")


def _run_sync(ctx: contextvars.Context, w: World, arg: Any) -> Tuple[str, Any]:
    try:
        return ("ret", ctx.run(w.call, arg))
    except CATCH as err:  # noqa: B030
        return ("raise", err)


def _helper_and_marked_context() -> Tuple[Any, contextvars.Context]:
    """A contracted function ``helper`` and a context that was copied WHILE helper's precondition was being evaluated
    (what a task created inside a condition, or a garbage-collected fire-and-forget task, gets)."""
    box = []  # type: List[contextvars.Context]

    def cond(x: Any) -> Any:
        if not box:
            box.append(contextvars.copy_context())
        return x > 0

    def helper(x: Any) -> Any:
        return x
    helper = icontract.require(cond, error=lambda: Tag("helper"))(helper)
    helper(1)
    return helper, box[0]


def _run_async(ctx: contextvars.Context, w: World, arg: Any, susp_k: int, how: int,
               closer: Optional[contextvars.Context] = None) -> Tuple[str, Any]:
    """Step the coroutine by hand inside ctx; at the susp_k-th suspension inject: how 0 throw(kind), 1 close(),
    2 close() from the other context ``closer`` (a coroutine destroyed by the garbage collector, or closed by hand, while
    another task is running)."""
    coro = ctx.run(w.call, arg)
    n = 0
    try:
        while True:
            ctx.run(coro.send, None)
            if n == susp_k:
                if how == 2:
                    assert closer is not None
                    closer.run(coro.close)
                    return ("closed", None)
                if how == 1:
                    ctx.run(coro.close)
                    return ("closed", None)
                exc = KIND_CLS[w.kind]()
                w.injected = exc
                ctx.run(coro.throw, exc)
            n += 1
    except StopIteration as stop:
        return ("ret", stop.value)
    except CATCH as err:  # noqa: B030
        return ("raise", err)


def run_fault(shape: str, mode: str, k: int, kind: int, boolish: bool, nfault: int, susp_k: int, how: int,
              t_pre0: bool, t_pre1: bool, t_post0: bool, t_inv0: bool, brk: bool = False) -> Tuple[bool, bool]:
    k, kind, nfault, susp_k, how = conc(k, 0, 12), conc(kind, 0, 4), conc(nfault, 1, 2), conc(susp_k, -1, 8), conc(how, 0, 2)
    if kind == 4 and _is_async(shape):
        kind = 0  # a StopIteration cannot leave a coroutine (PEP 479 turns it into RuntimeError)
    boolish = True if boolish else False
    with untraced():
        w = _CACHE.get((shape, mode))
        if w is None:
            w = World(shape, mode)
            _CACHE[(shape, mode)] = w
    w.boolish = boolish
    w.kind = kind
    # (methods only) a fault raised by the body leaves the object violating its invariant
    w.break_on_fault = True if brk else False
    ok = True
    ctx = contextvars.Context()
    helper = None  # type: Any
    closer = None  # type: Optional[contextvars.Context]
    if how == 2:
        # the coroutine runs in a context that already carries a mark (of ``helper``); it is closed from ``closer``, in
        # which the probes are then made
        with untraced():
            closer = contextvars.Context()
            helper, ctx = closer.run(_helper_and_marked_context)
    arg = Val(w) if mode == "default_reprlib" else 7
    fired = False
    faulted_outcomes = []
    for _ in range(nfault):
        w.count, w.k, w.injected = 0, k, None
        del w.log[:]
        w.truth = {"pre0": t_pre0, "pre1": t_pre1, "post0": t_post0, "inv0": t_inv0}
        if _is_async(shape):
            out = _run_async(ctx, w, arg, susp_k, how, closer)
        else:
            out = _run_sync(ctx, w, arg)
        faulted_outcomes.append(out[0])
        inj = w.injected
        if inj is not None:
            fired = True
            if out[0] == "closed":
                pass
            elif out[0] != "raise":
                # an injected exception was swallowed ... unless it was absorbed by the repr machinery
                if not (mode == "default_reprlib" and "repr" in w.log):
                    ok = False
            else:
                e = out[1]
                if e is inj:
                    pass
                elif isinstance(e, (ValueError, RuntimeError)) and e.__cause__ is inj:
                    pass  # documented wrappers: truth test failure / message generation failure, chained
                elif mode == "default_reprlib" and isinstance(e, icontract.ViolationError):
                    pass  # __repr__ failure absorbed by reprlib: the violation itself is still reported
                elif how == 0 and _is_async(shape) and isinstance(e, (Tag, AssertionError)) and False:
                    pass
                else:
                    ok = False
    # ---- probes in the SAME context vs. the same probes in a fresh context ----------------------
    w.k = -1
    w.boolish = False

    def probe(c: contextvars.Context, truth: Dict[str, Any]) -> Tuple[Any, ...]:
        w.count, w.injected = 0, None
        del w.log[:]
        w.truth = truth
        if _is_async(shape):
            out = _run_async(c, w, 7, -1, 0)
        else:
            out = _run_sync(c, w, 7)
        tag = out[0]
        detail = None
        if tag == "raise":
            e = out[1]
            detail = e.label if isinstance(e, Tag) else type(e).__name__
        return (tag, detail, tuple(w.log))

    bad_name = "inv0" if shape in ("method", "amethod") else "pre0"
    if closer is not None:
        # the context which closed the coroutine must be what it was: its own contracted calls are still checked
        ctx = closer
        try:
            closer.run(helper, -1)
            ok = False
        except Tag:
            pass
    for truth in ({bad_name: False}, {}):
        here = probe(ctx, dict(truth))
        fresh_ctx = probe(contextvars.Context(), dict(truth))
        if here != fresh_ctx:
            ok = False
        if truth and here[0] != "raise":
            ok = False  # the violating probe must be rejected (checks not left switched off)
        if not truth and here[0] != "ret":
            ok = False
    note((shape, mode, k, kind, boolish, nfault, susp_k, how, tuple(faulted_outcomes)), fired)
    return ok, fired


ALL = ["k", "kind", "boolish", "nfault", "susp_k", "how", "t_pre0", "t_pre1", "t_post0", "t_inv0", "brk"]


def harnesses(tier: str) -> List[H]:
    out = []  # type: List[H]
    modes = ["factory", "default_rec", "default_reprlib", "class"]
    for shape in ("func", "method"):
        for mode in modes:
            if tier == "quick" and shape == "method" and mode in ("class", "default_reprlib"):
                continue
            params = [I("k", 0, 10 if shape == "func" else 7), I("kind", 0, 4), B("boolish")]
            defaults = {"susp_k": -1, "how": 0, "nfault": 1, "t_pre1": True, "t_inv0": True, "t_pre0": True, "t_post0": True,
                        "brk": False}
            if tier == "thorough":
                params += [I("nfault", 1, 2)]
            if shape == "func":
                params += [B("t_pre0"), B("t_pre1"), B("t_post0")]
            else:
                params += [B("t_pre0"), B("t_inv0"), B("brk")]
            name = "fault_{}_{}".format(shape, mode)
            out.append(H(name, bind(run_fault, (shape, mode), ALL, defaults, [p.name for p in params]), params,
                         tiers=(tier,), timeout=900 if tier == "quick" else 3600,
                         family="{}: fault injected at the k-th library->user transition (conditions, truth tests, "
                                "capture, body, error factory / a_repr / value __repr__, invariant, constructor); kinds {}; "
                                "error mode {}; then a violating and a satisfying probe call in the same context, compared "
                                "with the same probes in a fresh context".format(
                                    "@require x2 @snapshot @ensure function" if shape == "func"
                                    else "class with invariant and a method with a precondition", KINDS, mode),
                         family_size=11 * 4 * 2))
    for shape in ("afunc", "amethod"):
        for mode in (["factory"] if tier == "quick" else ["factory", "class"]):
            # (a) faults raised by user code inside the coroutine
            params = [I("k", 0, 10 if shape == "afunc" else 7), I("kind", 0, 3), B("boolish")]
            defaults = {"susp_k": -1, "how": 0, "nfault": 1, "t_pre1": True, "t_inv0": True, "t_pre0": True, "t_post0": True,
                        "brk": False}
            if shape == "afunc":
                params += [B("t_pre0"), B("t_pre1"), B("t_post0")]
            else:
                params += [B("t_pre0"), B("t_inv0"), B("brk")]
            out.append(H("fault_{}_{}_user".format(shape, mode),
                         bind(run_fault, (shape, mode), ALL, defaults, [p.name for p in params]), params, tiers=(tier,),
                         timeout=900 if tier == "quick" else 3600,
                         family="async {}: fault raised by user code at the k-th transition".format(shape), family_size=88))
            # (b) cancellation / exception thrown in / close() at the k-th suspension point
            params = [I("susp_k", 0, 7 if shape == "afunc" else 3), I("how", 0, 2), I("kind", 0, 3)]
            defaults = {"k": -1 + 0, "boolish": False, "nfault": 1, "t_pre1": True, "t_inv0": True, "t_pre0": True, "t_post0": True,
                        "brk": False}
            defaults["k"] = 12  # never fires from user code
            if shape == "afunc":
                params += [B("t_pre0"), B("t_pre1"), B("t_post0")]
            else:
                params += [B("t_pre0"), B("t_inv0")]
            if tier == "thorough":
                params += [I("nfault", 1, 2)]
            out.append(H("fault_{}_{}_suspension".format(shape, mode),
                         bind(run_fault, (shape, mode), ALL, defaults, [p.name for p in params]), params, tiers=(tier,),
                         timeout=900 if tier == "quick" else 3600,
                         family="async {}: at the k-th suspension point (awaiting conditions, capture, body) an exception of "
                                "each kind incl. CancelledError is thrown into the coroutine, or the coroutine is "
                                "closed, or it is closed from another context while its own context carries the mark of "
                                "another function".format(shape), family_size=8 * 3 * 4))
    return out
