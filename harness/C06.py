"""C06 - every value shown in a violation message is the value Python computes."""
import atexit
import builtins
import importlib.util
import inspect
import os
import re
import shutil
import sys
import tempfile
import types
from typing import Any, Dict, List, Optional, Tuple

import icontract

from vfw import exprgen
from vfw.exprsupport import REC, Obj
from vfw.hlib import conc, fresh, note, untraced
from vfw.hspec import B, H, I, L, bind

_GEN = {}  # type: Dict[Tuple[str, str], Any]


def generated(tier: str, decorator: str = "require") -> Any:
    """Generate (once per process) the module with the contracted functions and their twins."""
    key = (tier, decorator)
    if key in _GEN:
        return _GEN[key]
    seed = int(os.environ.get("VERIF_SEED", "0") or 0)
    exprs = exprgen.family(tier, seed)
    src, meta = exprgen.module_source(exprs, decorator)
    verif = os.path.dirname(os.path.dirname(os.path.abspath(__file__)))
    base = os.path.join(verif, ".work")
    os.makedirs(base, exist_ok=True)
    d = tempfile.mkdtemp(prefix="gen_", dir=base)
    atexit.register(shutil.rmtree, d, True)
    path = os.path.join(d, "gen_{}_{}.py".format(tier, decorator))
    with open(path, "w") as f:
        f.write(src)
    spec = importlib.util.spec_from_file_location("gen_{}_{}".format(tier, decorator), path)
    assert spec is not None and spec.loader is not None
    mod = importlib.util.module_from_spec(spec)
    sys.modules[spec.name] = mod
    spec.loader.exec_module(mod)
    mod.META = meta
    mod.EXPRS = exprs
    _GEN[key] = mod
    return mod


_LINE = re.compile(r"^(.+) was <(\d+)>$")
_ALL_HEAD = re.compile(r"^(.+) was False, e\.g\., with$")
_ALL_ITEM = re.compile(r"^  (\w+) = <(\d+)>$")


def parse_message(msg: str, cond_text: str) -> Optional[Tuple[List[Tuple[str, int]], List[Tuple[str, List[Tuple[str, int]]]]]]:
    """-> (value lines [(text, token)], all-lines [(text, [(name, token)])]) or None if the layout is unexpected."""
    lines = msg.split("\n")
    if not lines or not lines[0].startswith("File ") or not lines[0].endswith(":"):
        return None
    rest = "\n".join(lines[1:])
    if not rest.startswith(cond_text):
        return None
    rest = rest[len(cond_text):]
    if rest == "":
        return [], []
    if rest.startswith(": "):
        body = rest[2:].split("\n")
    elif rest.startswith(":\n"):
        body = rest[2:].split("\n")
    else:
        return None
    values = []  # type: List[Tuple[str, int]]
    alls = []  # type: List[Tuple[str, List[Tuple[str, int]]]]
    i = 0
    while i < len(body):
        ln = body[i]
        m = _LINE.match(ln)
        if m:
            values.append((m.group(1), int(m.group(2))))
            i += 1
            continue
        m = _ALL_HEAD.match(ln)
        if m:
            items = []
            i += 1
            while i < len(body) and _ALL_ITEM.match(body[i]):
                mm = _ALL_ITEM.match(body[i])
                assert mm is not None
                items.append((mm.group(1), int(mm.group(2))))
                i += 1
            alls.append((m.group(1), items))
            continue
        return None
    return values, alls


_MISSING = object()


def _same(a: Any, b: Any) -> bool:
    """Equal, with the same type (structural for builtins, identity otherwise)."""
    if a is b:
        return True
    if type(a) is not type(b):
        return False
    if isinstance(a, (int, str, bool, list, tuple, set, dict, frozenset, float, bytes, slice, type(None))):
        return True if a == b else False
    return False


def _unrepresentable(v: Any) -> bool:
    # written from the property text (C20): classes, functions, methods, modules and builtins are left out
    return (inspect.isclass(v) or inspect.isfunction(v) or inspect.ismethod(v) or inspect.ismodule(v)
            or inspect.isbuiltin(v))


def judge(mod: Any, eid: int, args: Tuple[Any, ...], strict_error: bool, strict_fstring: bool = False) -> Tuple[bool, bool, str]:
    """Evaluate the twin in CPython, call the contracted function, compare the message with what Python computed.

    Returns (ok, witness, what)."""
    records = []  # type: List[Tuple[str, str, Any]]

    def rec(kind: str, text: str, value: Any) -> Any:
        records.append((kind, text, value))
        return value

    try:
        val = mod.TWINS[eid](*args, rec)
        falsy = not val
    except Exception:  # the condition itself raises for these inputs: outside the claim
        return True, False, "condition-raises"
    del REC.seen[:]
    try:
        fresh(mod.FUNCS[eid], *args)
        outcome = None  # type: Any
    except icontract.ViolationError as err:
        outcome = err
    except Exception as err:  # noqa: B902
        outcome = err
    if not falsy:
        return outcome is None, False, "holds"
    if not isinstance(outcome, icontract.ViolationError):
        # C07's clause (the violation must surface as ViolationError); not judged by C06
        return (not strict_error), False, "not-a-violation-error:" + type(outcome).__name__
    seen = list(REC.seen)
    expr = mod.EXPRS[eid]
    parsed = parse_message(str(outcome), expr)
    if parsed is None:
        return False, True, "unparsable-message"
    values, alls = parsed
    ok = True
    params = dict(zip(exprgen.PARAMS, args))
    inside = set(mod.META[eid]["inside"])
    by_text = {}  # type: Dict[str, List[Any]]
    for kind, text, value in records:
        by_text.setdefault(text, []).append(value)
    shown = set()
    # ---- soundness ------------------------------------------------------------------------------
    for (text, tok) in values:
        shown.add(text)
        if tok >= len(seen):
            return False, True, "token-out-of-range"
        obj = seen[tok]
        if text in by_text:
            if not any(_same(obj, v) for v in by_text[text]):
                ok = False
        elif text in params:
            if not _same(obj, params[text]):
                ok = False
        elif text in inside:
            # a sub-expression inside a comprehension scope that does not depend on the loop variables
            try:
                want = eval(text, dict(vars(mod), C=3), dict(params))
            except Exception:
                ok = False
            else:
                if not _same(obj, want):
                    ok = False
        else:
            ok = False  # names something Python did not evaluate
    firsts = dict(mod.FIRST[eid])
    for (text, items) in alls:
        shown.add(text)
        if text not in firsts:
            ok = False
            continue
        want_items = firsts[text](*args)
        if want_items is None or [n for n, _ in want_items] != [n for n, _ in items]:
            ok = False
            continue
        for (n, tok), (_, want) in zip(items, want_items):
            if tok >= len(seen) or not _same(seen[tok], want):
                ok = False
    # ---- completeness (no None bound to a used name: our inputs never are) --------------------------
    for kind, text, value in records:
        if kind.startswith("fstr:"):
            # evaluated inside an f-string: the library shows only the whole f-string (known finding KF-C06-1; the
            # behaviour is pinned by tests_3_6/test_represent.py).  Soundness still applies to whatever it shows.
            if not strict_fstring:
                continue
            kind = kind[len("fstr:"):]
        if kind in ("name", "attr", "call", "subscript", "comp", "named"):
            if _unrepresentable(value):
                continue
            if kind == "name" and text not in params and getattr(builtins, text, _MISSING) is value:
                continue  # the built-in itself (a variable that merely shadows a built-in name must be listed)
            if text not in shown:
                ok = False
    used_free = set()
    for p, v in params.items():
        if p not in shown and not _unrepresentable(v):
            ok = False
    return ok, True, "violation"


HEAVY_MARKS = ("{x, y}", "f'", "str(x)", " & ", " | ", " ^ ", ">>", "<<", "**", "{i for i", "{i: ", "{*")


def is_heavy(expr: str) -> bool:
    """Expressions whose symbolic evaluation does not finish within the budget (symbolic int -> str rendering, sets/dicts
    keyed by symbolic ints, bitwise operators): x and y are case-split over a small range instead."""
    return any(m in expr for m in HEAVY_MARKS)


def run_expr(tier: str, ids: Tuple[int, ...], heavy: bool, eid: int, x: int, y: int, b: bool, xs: List[int], on: int,
             oflag: bool) -> Tuple[bool, bool]:
    eid = ids[conc(eid, 0, len(ids) - 1)]
    if heavy:
        x, y = conc(x, -2, 3), conc(y, -2, 3)
        on, oflag = 1, False
    with untraced():
        mod = generated(tier)
    o = Obj(on, list(xs), oflag)
    ok, witness, what = judge(mod, eid, (x, y, b, xs, o), strict_error=False)
    note((mod.EXPRS[eid], what), witness)
    return ok, witness


def run_fstring_strict(x: int, on: int) -> Tuple[bool, bool]:
    """Witness of KF-C06-1: completeness demanded also for what is evaluated inside an f-string."""
    with untraced():
        mod = generated("quick")
        eid = mod.EXPRS.index("f'{o.n}-{abs(x)}' == 'zz'")
    ok, witness, what = judge(mod, eid, (x, 0, False, [], Obj(on, [], False)), strict_error=False, strict_fstring=True)
    return ok, witness


ALL = ["eid", "x", "y", "b", "xs", "on", "oflag"]


_PRIVATE_SRC = '''"""generated by harness.C06 - regenerated on every run"""
import icontract
from vfw.exprsupport import REC


class Base(icontract.DBC):
    def __init__(self, a):
        self.__x = a

    @icontract.require(lambda self: self.__x > 100, a_repr=REC)
    def m(self):
        return None


class Derived(Base):
    def __init__(self, a, b):
        super().__init__(a)
        self.__x = b
        self.__y__x = 7

    @icontract.ensure(lambda self: self.__x > 100, a_repr=REC)
    def n(self):
        return None

    # the condition mentions the attribute of the base by its mangled name, too
    @icontract.require(lambda self: self.__x > 100 and self._Base__x > -1000, a_repr=REC)
    def k(self):
        return None

    # a private name which is a suffix of another private name
    @icontract.require(lambda self: self.__x > 100 and self.__y__x > -1000, a_repr=REC)
    def j(self):
        return None

    # the private attribute is read inside a comprehension (compiled by the library out of the class body)
    @icontract.require(lambda self: all(v < self.__x - 100 for v in [0]), a_repr=REC)
    def c(self):
        return None
'''
_PRIVATE_MOD = []  # type: List[Any]


def run_private(a: int, b: int, which: int) -> Tuple[bool, bool]:
    """Base and Derived both define the private attribute __x; a condition written in Base reads _Base__x, one written in
    Derived reads _Derived__x - also on a Derived instance.  The message shows the value Python read."""
    which = conc(which, 0, 4)
    with untraced():
        if not _PRIVATE_MOD:
            import importlib.util
            verif = os.path.dirname(os.path.dirname(os.path.abspath(__file__)))
            base = os.path.join(verif, ".work")
            os.makedirs(base, exist_ok=True)
            d = tempfile.mkdtemp(prefix="gen_", dir=base)
            atexit.register(shutil.rmtree, d, True)
            path = os.path.join(d, "gen_c06_private.py")
            with open(path, "w") as f:
                f.write(_PRIVATE_SRC)
            spec = importlib.util.spec_from_file_location("gen_c06_private", path)
            assert spec is not None and spec.loader is not None
            mod = importlib.util.module_from_spec(spec)
            sys.modules["gen_c06_private"] = mod
            spec.loader.exec_module(mod)
            _PRIVATE_MOD.append(mod)
        mod = _PRIVATE_MOD[0]
    inst = mod.Derived(a, b)
    read = a if which == 0 else b
    del REC.seen[:]
    try:
        fresh([inst.m, inst.n, inst.k, inst.j, inst.c][which])
        outcome = None  # type: Any
    except icontract.ViolationError as err:
        outcome = err
    if read > 100:
        return outcome is None, False
    if outcome is None:
        return False, True
    ok = which == 4  # (inside a comprehension scope the attribute need not be listed; the violation must be reported)
    for line in str(outcome).split("\n"):
        if line.startswith("self.__x was <") and line.endswith(">"):
            tok = int(line[len("self.__x was <"):-1])
            ok = tok < len(REC.seen) and REC.seen[tok] is read
    note(("private", which), True)
    return ok, True


def harnesses(tier: str) -> List[H]:
    mod = generated(tier)
    n = len(mod.EXPRS)
    chunk = 8 if tier == "quick" else 12
    out = []  # type: List[H]
    light = [k for k in range(n) if not is_heavy(mod.EXPRS[k])]
    heavy = [k for k in range(n) if is_heavy(mod.EXPRS[k])]
    for label, pool, hv in (("expr", light, False), ("heavy", heavy, True)):
        size = chunk if not hv else max(2, chunk // 4)
        for c in range(0, len(pool), size):
            ids = tuple(pool[c:c + size])
            # (heavy expressions: the same small case split in both tiers - wider ranges did not finish within the budget when
            # the thorough tier was run end to end)
            lo_x, hi_x = (-1, 2) if hv else (-4, 12)
            params = [I("eid", 0, len(ids) - 1), I("x", lo_x, hi_x), I("y", lo_x, hi_x), B("b"),
                      L("xs", 1 if hv else (2 if tier == "quick" else 3), -3, 3), I("on", -2, 2), B("oflag")]
            out.append(H("{}_{:04d}".format(label, c // size),
                         bind(run_expr, (tier, ids, hv), ALL, {}, [p.name for p in params]), params, tiers=(tier,),
                         timeout=900 if tier == "quick" else 3600,
                         family="condition expressions {} of the generated family ({} in total): {}; the twin with every "
                                "name/attribute/call/subscript/comprehension/f-string/named expression wrapped in a recorder "
                                "is evaluated by CPython on the same symbolic inputs{}".format(
                                    list(ids), n, [mod.EXPRS[k] for k in ids],
                                    "; x, y case-split over a small range (int->str rendering, int-keyed sets/dicts and bitwise "
                                    "operators on symbolic ints do not finish)" if hv else ""),
                         family_size=len(ids), grid=120))
    out.append(H("kf_fstring_inner", bind(run_fstring_strict, (), ["x", "on"], {}, ["x", "on"]), [I("x", -2, 3), I("on", -2, 2)],
                 tiers=(tier,), timeout=120, witness_only=True,
                 family="witness of the known finding KF-C06-1 only (attributes and calls evaluated inside an f-string are not "
                        "listed); not part of the claim", family_size=1))
    PV = ["a", "b", "which"]
    out.append(H("private_attribute_two_classes", bind(run_private, (), PV, {}, PV),
                 [I("a", 90, 110), I("b", 90, 110), I("which", 0, 4)], tiers=(tier,), timeout=200,
                 family="Base and Derived both define self.__x; a precondition written in Base and a postcondition written in "
                        "Derived read it on a Derived instance; conditions of Derived that also mention self._Base__x, another "
                        "private name ending in __x, or read self.__x inside a comprehension", family_size=5))
    return out
