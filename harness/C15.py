"""C15 - disabled contracts are absent; enabled ones do not depend on the interpreter mode."""
import os
import sys
from typing import Any, Dict, List, Optional, Tuple

import icontract
import icontract._globals

from vfw.hlib import Tag, conc, concb, drive, fresh, note
from vfw.hspec import B, H, I, OS, bind

KINDS = ["require", "ensure", "snapshot", "invariant"]
TARGETS = ["function", "async_function", "method", "staticmethod_func", "classmethod_func", "property_getter",
           "dbc_overridden_method"]
_GLOBALS_SRC = None  # type: Optional[str]


def _globals_source() -> str:
    global _GLOBALS_SRC
    if _GLOBALS_SRC is None:
        with open(icontract._globals.__file__) as f:
            _GLOBALS_SRC = f.read()
    return _GLOBALS_SRC


class _Environ:
    def __init__(self, value: Optional[str]) -> None:
        self.value = value

    def get(self, key: str, default: Any = None) -> Any:
        if key == "ICONTRACT_SLOW":
            return default if self.value is None else self.value
        return default


def slow_from_env(value: Optional[str]) -> Any:
    """Execute the real source of icontract/_globals.py with os.environ replaced by a stub."""
    code = compile(_globals_source(), icontract._globals.__file__, "exec")
    real = os.environ
    os.environ = _Environ(value)  # type: ignore
    try:
        ns = {"__name__": "icontract._globals_reexec"}  # type: Dict[str, Any]
        exec(code, ns)
    finally:
        os.environ = real
    return ns["SLOW"]


def run_enabled(kind_i: int, target_i: int, how: int, en: bool, env: Optional[str], t: bool,
                kwcall: bool = False) -> Tuple[bool, bool]:
    """how: 0 default (no ``enabled`` argument), 1 enabled=<symbolic bool>, 2 enabled=<SLOW computed from env>.
    kwcall: the call passes the reserved keyword ``_ARGS=`` (plain and async functions only): an enabled contract rejects
    it with TypeError in every interpreter mode, a disabled one is absent so that the bare function simply receives it."""
    kwcall = True if kwcall else False
    kind_i, target_i, how = conc(kind_i, 0, 3), conc(target_i, 0, len(TARGETS) - 1), conc(how, 0, 2)
    kind, target = KINDS[kind_i], TARGETS[target_i]
    ok = True
    kwargs = {}  # type: Dict[str, Any]
    if how == 0:
        effective = __debug__
    elif how == 1:
        kwargs["enabled"] = en
        effective = True if en else False
    else:
        slow = slow_from_env(env)
        # SLOW is true iff the interpreter is not optimised and the variable is set to a non-empty string
        want_slow = __debug__ and env is not None and env != ""
        if (True if slow else False) != want_slow:
            ok = False
        kwargs["enabled"] = slow
        effective = want_slow
    calls = {"cond": 0, "cap": 0, "body": 0}

    def cond_x(x: Any) -> Any:
        calls["cond"] += 1
        return t

    def cond_res(result: Any) -> Any:
        calls["cond"] += 1
        return t

    def cond_self(self: Any) -> Any:
        calls["cond"] += 1
        return t

    def cap(x: Any) -> Any:
        calls["cap"] += 1
        return x

    err = lambda: Tag(kind)  # noqa: E731
    is_async = target == "async_function"
    if kind == "invariant":
        class K:
            def m(self, x: Any) -> Any:
                calls["body"] += 1
                return "res"
        before = dict(vars(K))
        deco = icontract.invariant(cond_self, error=err, **kwargs)
        calls["cond"] = 0
        t_saved = t
        K2 = deco(K)
        if K2 is not K:
            ok = False
        if not effective:
            if dict(vars(K)) != before:
                ok = False

        def call() -> Any:
            return K().m(1)
    else:
        if target in ("method", "property_getter", "dbc_overridden_method"):
            def bare(self: Any, x: Any = 1) -> Any:
                calls["body"] += 1
                return "res"
        elif target == "classmethod_func":
            def bare(cls: Any, x: Any = 1) -> Any:  # type: ignore
                calls["body"] += 1
                return "res"
        elif is_async:
            async def bare(x: Any = 1, **kw: Any) -> Any:  # type: ignore
                calls["body"] += 1
                return "res"
        else:
            def bare(x: Any = 1, **kw: Any) -> Any:  # type: ignore
                calls["body"] += 1
                return "res"
        subject = bare
        if kind == "snapshot":
            # a snapshot needs an (always enabled) postcondition below it
            subject = icontract.ensure(lambda result: True, error=lambda: Tag("base-post"), enabled=True)(bare)
        before = dict(vars(subject))
        if kind == "require":
            deco = icontract.require(cond_x, error=err, **kwargs)
        elif kind == "ensure":
            deco = icontract.ensure(cond_res, error=err, **kwargs)
        else:
            deco = icontract.snapshot(cap, name="s", **kwargs)
        f = deco(subject)
        if not effective:
            # the very object, no attributes added
            if f is not subject or dict(vars(subject)) != before:
                ok = False
        if target == "dbc_overridden_method":
            # the contract is declared on a DBC base; a subclass overrides the method without own contracts
            base_cls = icontract.DBCMeta("Base", (icontract.DBC,), {"m": f})

            def override(self: Any, x: Any = 1) -> Any:
                calls["body"] += 1
                return "res"
            holder = icontract.DBCMeta("Derived", (base_cls,), {"m": override})

            def call() -> Any:
                return holder().m(1)
        elif target == "method":
            holder = type("H", (), {"m": f})

            def call() -> Any:
                return holder().m(1)
        elif target == "staticmethod_func":
            holder = type("H", (), {"m": staticmethod(f)})

            def call() -> Any:
                return holder.m(1)
        elif target == "classmethod_func":
            holder = type("H", (), {"m": classmethod(f)})

            def call() -> Any:
                return holder.m(1)
        elif target == "property_getter":
            holder = type("H", (), {"m": property(f)})

            def call() -> Any:
                return holder().m
        elif is_async:
            def call() -> Any:
                return drive(f(1, _ARGS=(2,)) if kwcall else f(1))
        else:
            def call() -> Any:
                return f(1, _ARGS=(2,)) if kwcall else f(1)
    kwcall = kwcall and kind != "invariant" and target in ("function", "async_function")
    try:
        res = fresh(call)
        out = "ret"
    except Tag as e:
        res = None
        out = "violation:" + str(e.label)
    except TypeError as e:
        res = None
        out = "type_error" if "_ARGS" in str(e) else "other_type_error"
    if kwcall and (effective or kind == "snapshot"):  # (the snapshot sits on an always enabled postcondition)
        # the reserved keyword is rejected before anything is evaluated - with and without -O
        ok = ok and out == "type_error" and calls["cond"] == 0 and calls["body"] == 0
        note((kind, target, how, effective, out, sys.flags.optimize, "kwcall"), True)
        return ok, True
    if not effective:
        # never calls its condition or capture; the call behaves like the bare one
        if calls["cond"] != 0 or calls["cap"] != 0 or out != "ret" or res != "res":
            ok = False
    else:
        if kind == "snapshot":
            if calls["cap"] != 1 or out != "ret":
                ok = False
        elif t:
            if out != "ret" or calls["cond"] < 1:
                ok = False
        else:
            if out != "violation:" + kind:
                ok = False
    witness = (not effective) or (effective and not t)
    note((kind, target, how, effective, out, sys.flags.optimize), witness)
    return ok, witness


def run_definition_guards(case: int) -> Tuple[bool, bool]:
    """Definition-time rejections of explicitly enabled contracts are the same in every interpreter mode.
    case 0: two bases contribute different same-named snapshots to an overriding member -> ValueError when the class is created;
    case 1: a snapshot with a name already used on the same function -> ValueError;
    case 2: preconditions added to a method whose only ancestor declares none -> TypeError."""
    case = conc(case, 0, 2)
    en = {"enabled": True}

    def mk(name: str, cap: Any) -> Any:
        def m(self: Any, xs: Any) -> Any:
            return None
        f = icontract.ensure(lambda result: True, **en)(m)
        return icontract.snapshot(cap, name=name, **en)(f)
    try:
        if case == 0:
            p1 = icontract.DBCMeta("P1", (icontract.DBC,), {"m": mk("n", lambda xs: xs[:])})
            p2 = icontract.DBCMeta("P2", (icontract.DBC,), {"m": mk("n", lambda xs: len(xs))})
            icontract.DBCMeta("Both", (p1, p2), {"m": (lambda self, xs: None)})
        elif case == 1:
            f = mk("n", lambda xs: xs[:])
            icontract.snapshot(lambda xs: len(xs), name="n", **en)(f)
        else:
            base = icontract.DBCMeta("Base", (icontract.DBC,), {"m": (lambda self, x: None)})
            icontract.DBCMeta("Derived", (base,), {
                "m": icontract.require(lambda x: x > 0, **en)(lambda self, x: None)})
        got = "accepted"
    except ValueError:
        got = "ValueError"
    except TypeError:
        got = "TypeError"
    want = "TypeError" if case == 2 else "ValueError"
    note(("definition_guards", case, got, sys.flags.optimize), True)
    return got == want, True


ALL = ["kind_i", "target_i", "how", "en", "env", "t", "kwcall"]


def harnesses(tier: str) -> List[H]:
    out = []  # type: List[H]
    for flags, label in (([], "normal"), (["-O"], "O"), (["-OO"], "OO")):
        out.append(H("definition_guards_{}".format(label), bind(run_definition_guards, (), ["case"], {}, ["case"]),
                     [I("case", 0, 2)], tiers=(tier,), timeout=200, py_flags=flags,
                     family="interpreter mode {}: explicitly enabled contracts that must be rejected when they are defined (two bases "
                            "with same-named snapshots, a duplicate snapshot name on one function, preconditions added where the "
                            "ancestor has none)".format(label), family_size=3))
        for how in range(3):
            params = [I("kind_i", 0, 3), I("target_i", 0, len(TARGETS) - 1)]
            defaults = {"how": how, "en": True, "env": None, "kwcall": False}  # type: Dict[str, Any]
            if how == 1:
                params += [B("en")]
            if how == 2:
                params += [OS("env", 2 if tier == "quick" else 4)]
            params += [B("t")]
            if how == 1:
                params += [B("kwcall")]
            out.append(H("enabled_{}_{}".format(["default", "explicit", "slow"][how], label),
                         bind(run_enabled, (), ALL, defaults, [p.name for p in params]), params, tiers=(tier,),
                         timeout=600, py_flags=flags,
                         family="interpreter mode {}: decorator kinds {} x targets {}; enabled = {}".format(
                             label, KINDS, TARGETS,
                             ["library default (__debug__)", "a symbolic bool",
                              "SLOW computed by executing icontract/_globals.py with ICONTRACT_SLOW = a symbolic "
                              "Optional[str] (None = unset)"][how]),
                         family_size=4 * len(TARGETS)))
    return out
