"""C13 - async callables get the same contract semantics as sync ones."""
from typing import Any, Dict, List, Tuple

from vfw.build import RT, get_built, invoke, identify
from vfw.hlib import BodyError, Tag, conc, fresh, note
from vfw.hspec import B, H, I, bind
from vfw.prog import ASYNC_KINDS, Level, Prog, effective, expect

RESULT = object()


def _levels(kind: str, a0: int, b0: int, s0: int, i0: int, d1: int, a1: int, b1: int) -> Tuple[Level, ...]:
    inv0 = ("CALL",) * i0 if kind == "method" else ()
    l0 = Level(True, pre=a0, post=b0, snaps=s0 if b0 else 0, inv=inv0)
    if kind == "func" or d1 == 0:
        return (l0,)
    if d1 == 1:
        return (l0, Level(False))
    return (l0, Level(True, pre=a1, post=b1))


def _run(prog: Prog, async_conds: int, tv: Any, body_raises: bool, async_level: Any = None) -> Tuple[List[Any], Tuple[Any, ...]]:
    built = get_built(prog, "factory", async_conds=async_conds, async_level=async_level)

    def body(kw: Dict[str, Any]) -> Any:
        if body_raises:
            raise BodyError()
        return RESULT

    rt = RT(tv=tv, body=body, error_mode="factory")
    built.rt = rt
    try:
        res = fresh(invoke, built, 5)
        out = ("ret", res is RESULT)  # type: Tuple[Any, ...]
    except Tag as err:
        out = ("violation", identify(built, err))
    except BodyError:
        out = ("raise_body",)
    except ValueError:
        out = ("value_error",)
    return list(rt.log), out


def run_diff(kind: str, cmode: int, a0: int, b0: int, s0: int, i0: int, d1: int, a1: int, b1: int, br: bool,
             p0: bool, p1: bool, p2: bool, p3: bool, q0: bool, q1: bool, q2: bool,
             v0: bool, w0: bool) -> Tuple[bool, bool]:
    cmode = conc(cmode, 0, 4)
    a0, b0, s0, i0, d1, a1, b1 = conc(a0, 0, 2), conc(b0, 0, 2), conc(s0, 0, 1), conc(i0, 0, 1), conc(d1, 0, 2), conc(a1, 0, 2), conc(b1, 0, 1)
    body_raises = True if br else False
    levels = _levels(kind, a0, b0, s0, i0, d1, a1, b1)
    sync_prog = Prog(kind=kind, is_async=False, levels=levels)
    async_prog = Prog(kind=kind, is_async=True, levels=levels)
    eff = effective(sync_prog)
    if eff.creation_error_at is not None:
        return True, False
    pres, posts = [p0, p1, p2, p3], [q0, q1, q2]
    pre_off, post_off = {0: 0, 1: a0}, {0: 0, 1: b0}

    def tv(role: str, lvl: int, i: int, when: Any) -> Any:
        if role == "pre":
            return pres[pre_off[lvl] + i]
        if role == "post":
            return posts[post_off[lvl] + i]
        if role == "inv":
            return v0 if when == "before" else w0
        return True

    ok = True
    # 1. the same program rendered with ``def`` and with ``async def`` (conditions per cmode on the
    #    async rendering: plain / coroutine functions / plain functions returning awaitables)
    log_s, out_s = _run(sync_prog, 0, tv, body_raises)
    log_a, out_a = _run(async_prog, cmode, tv, body_raises)
    if log_s != log_a or out_s != out_a:
        ok = False
    # ... and both agree with the reference model
    exp_events, exp_out = expect(sync_prog, tv, body_raises)
    if log_s != exp_events:
        ok = False
    # 2. coroutine conditions / captures on a SYNC callable: ValueError, never "truthy coroutine"
    witness2 = False
    if cmode in (1, 2):
        log_x, out_x = _run(sync_prog, cmode, tv, body_raises)
        inv_before_fails = kind == "method" and i0 == 1 and not v0
        if inv_before_fails:
            if out_x[0] != "violation":
                ok = False
        elif eff.groups:
            if out_x != ("value_error",) or ("body",) in log_x:
                ok = False
            witness2 = True
        elif eff.posts and eff.snaps:
            if out_x != ("value_error",) or ("body",) in log_x:
                ok = False
            witness2 = True
        elif eff.posts and not body_raises:
            if out_x != ("value_error",):
                ok = False
            witness2 = True
    # 3. ... also when only the INHERITED contracts (level 0) are coroutine conditions and the overriding level's own
    #    ones are plain: the first contract evaluated decides
    if cmode in (1, 2) and d1 == 2 and kind != "func":
        log_y, out_y = _run(sync_prog, cmode, tv, body_raises, 0)
        inv_before_fails = kind == "method" and i0 == 1 and not v0
        base_has_pre = a0 > 0
        if not inv_before_fails and base_has_pre:
            # the inherited group is tried first: its coroutine condition must be rejected
            if out_y != ("value_error",) or ("body",) in log_y:
                ok = False
            witness2 = True
    witness = out_a[0] == "violation" or witness2
    note((kind, cmode, a0, b0, s0, i0, d1, a1, b1, body_raises, tuple(log_a), out_a[0]), witness)
    return ok, witness


class _Nested:
    """class K with an invariant; ``outer`` calls ``inner`` on the same instance; rendered with def / async def."""

    def __init__(self, is_async: bool) -> None:
        import icontract
        from vfw.hlib import Suspend
        self.log = []  # type: List[Any]
        self.truth = []  # type: List[Any]
        self.k = 0
        w = self

        def inv(self: Any) -> Any:
            if w.k >= len(w.truth):
                return True
            v = w.truth[w.k]
            w.k += 1
            w.log.append(("inv",))
            return v

        if is_async:
            async def inner(self: Any, d: Any) -> Any:
                w.log.append(("body", "inner"))
                await Suspend()
                self.total = self.total + d
                return self.total

            async def outer(self: Any, d: Any) -> Any:
                w.log.append(("body", "outer"))
                r = await self.inner(d)
                w.log.append(("inner-returned", r == self.total))
                return ("outer", r)
        else:
            def inner(self: Any, d: Any) -> Any:  # type: ignore
                w.log.append(("body", "inner"))
                self.total = self.total + d
                return self.total

            def outer(self: Any, d: Any) -> Any:  # type: ignore
                w.log.append(("body", "outer"))
                r = self.inner(d)
                w.log.append(("inner-returned", r == self.total))
                return ("outer", r)

        def __init__(self: Any) -> None:
            self.total = 0
        cls = type("K", (), {"__init__": __init__, "inner": inner, "outer": outer})
        self.cls = icontract.invariant(inv, error=lambda: Tag("inv"))(cls)


_NESTED = {}  # type: Dict[bool, _Nested]


def run_nested(d: int, t0: bool, t1: bool, t2: bool, t3: bool) -> Tuple[bool, bool]:
    """outer() -> inner() on the same instance: the async rendering must give the same trace and outcome as the sync one."""
    from vfw.hlib import drive, untraced
    res = []
    for is_async in (False, True):
        with untraced():
            w = _NESTED.get(is_async)
            if w is None:
                w = _Nested(is_async)
                _NESTED[is_async] = w
        w.truth, w.k = [], 0
        inst = fresh(w.cls)
        del w.log[:]
        w.truth, w.k = [t0, t1, t2, t3], 0

        def call() -> Any:
            r = inst.outer(d)
            return drive(r) if is_async else r
        try:
            out = ("ret", fresh(call))  # type: Any
        except Tag as err:
            out = ("violation", err.label)
        res.append((list(w.log), out, inst.total))
    ok = res[0] == res[1]
    # and the inner body really ran, returning its value
    if res[0][1][0] == "ret" and (("body", "inner") not in res[1][0] or ("inner-returned", True) not in res[1][0]):
        ok = False
    witness = res[0][1][0] == "ret"
    note(("nested", tuple(res[1][0]), res[1][1][0]), witness)
    return ok, witness


ALL = ["cmode", "a0", "b0", "s0", "i0", "d1", "a1", "b1", "br", "p0", "p1", "p2", "p3", "q0", "q1", "q2", "v0", "w0"]


def harnesses(tier: str) -> List[H]:
    out = []  # type: List[H]
    kinds = ["func", "method"] if tier == "quick" else list(ASYNC_KINDS)
    for kind in kinds:
        for cmode in (0, 1, 2, 3, 4):
            for d1 in ((0,) if kind == "func" else (0, 1, 2)):
                a1_values = [None] if d1 != 2 else ([0, 1] if tier == "quick" else [0, 1, 2])
                for a1 in a1_values:
                    params = [I("a0", 0, 2), I("b0", 0, 2), I("s0", 0, 1)]
                    defaults = {"cmode": cmode, "d1": d1, "i0": 0, "a1": 0 if a1 is None else a1, "b1": 0, "p2": True,
                                "p3": True, "q2": True, "v0": True, "w0": True}
                    if kind == "method":
                        params += [I("i0", 0, 1)]
                    if d1 == 2:
                        params += [I("b1", 0, 1)]
                    params += [B("br"), B("p0"), B("p1"), B("q0"), B("q1")]
                    if d1 == 2:
                        params += [B("p2"), B("q2")] + ([B("p3")] if tier == "thorough" else [])
                    if kind == "method":
                        params += [B("v0"), B("w0")]
                    name = "diff_{}_c{}{}{}".format(kind, cmode, "" if kind == "func" else "_d%d" % d1,
                                                    "" if a1 is None else "a%d" % a1)
                    out.append(H(name, bind(run_diff, (kind,), ALL, defaults, [p.name for p in params]), params,
                                 tiers=(tier,), timeout=600,
                                 family="kind={} rendered with def and async def; conditions/captures on the async rendering: {}; "
                                        "pre 0..2, post 0..2, snapshot 0..1{}; subclass level {}; body returns / raises".format(
                                            kind, ["plain", "coroutine functions (suspending)",
                                                   "plain functions returning coroutines",
                                                   "plain functions returning non-coroutine awaitables",
                                                   "mixed within a group: coroutine functions at even positions, plain at odd"][cmode],
                                            ", invariant 0..1" if kind == "method" else "",
                                            ["absent", "not overriding", "overriding with %s own preconditions" % a1][d1]),
                                 family_size=18 * (2 if kind == "method" else 1) * (1 if d1 < 2 else 2) * 2))
    NP = ["d", "t0", "t1", "t2", "t3"]
    out.append(H("nested_methods", bind(run_nested, (), NP, {}, NP), [I("d", -4, 12), B("t0"), B("t1"), B("t2"), B("t3")],
                 tiers=(tier,), timeout=300,
                 family="class with an invariant; public method outer() calls public method inner() of the same instance "
                        "(a re-entrant, unchecked call); def vs async def rendering; invariant truth sequence symbolic",
                 family_size=1))
    return out
