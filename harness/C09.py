"""C09 - the ``error`` argument decides exactly what a violation raises."""
from typing import Any, Dict, List, Tuple

import icontract

from vfw.build import mkfn
from vfw.hlib import RecRepr, conc, concb, drive, fresh, note, untraced
from vfw.hspec import B, H, I, bind

SENT_Y = object()


class MyErr(Exception):
    pass


class MyBase(BaseException):
    pass


class Falsy(Exception):
    """An exception whose instances are falsy (e.g. it carries a possibly empty collection of details)."""

    def __len__(self) -> int:
        return 0


class Holder:
    """Per-path state shared with the (cached) program."""

    def __init__(self) -> None:
        self.truth = True  # type: Any
        self.err_calls = []  # type: List[Dict[str, Any]]
        self.cond_calls = 0
        self.body_calls = 0
        self.rec_seen = []  # type: List[Any]


class _Rec(RecRepr):
    def __init__(self, prog: "Program") -> None:
        super().__init__()
        self._prog = prog

    def repr(self, x: Any) -> str:  # noqa: A003
        self._prog.h.rec_seen.append(x)
        return "<v>"


class Program:
    def __init__(self) -> None:
        self.h = Holder()
        self.call = None  # type: Any
        self.error_obj = None  # type: Any
        self.cond_name = ""
        self.creation_error = None  # type: Any
        self.bare = None  # type: Any
        self.decorated = None  # type: Any


FORMS = ["none", "class", "instance", "invalid_int", "invalid_str", "invalid_class", "base_class", "base_instance",
         "falsy_class", "falsy_instance",
         # factories (for these every subset of the available names is tried); the last two return a non-exception
         "function", "method", "nonexc_factory", "none_factory"]
FORM_GROUPS = [("plain", 0, 9), ("function", 10, 10), ("method", 11, 11), ("nonexc", 12, 13)]
ROLES = ["pre", "post", "inv"]
KINDS = ["func", "method", "afunc", "amethod"]
_CACHE = {}  # type: Dict[Tuple[Any, ...], Program]


def _avail(role: str, kind: str) -> List[str]:
    if role == "inv":
        return ["self"]
    names = ["x", "y", "_ARGS", "_KWARGS"]
    if kind in ("method", "amethod"):
        names = ["self"] + names
    if role == "post":
        names += ["result", "OLD"]
    return names


def _build(role: str, kind: str, form: str, subset: Tuple[bool, ...]) -> Program:
    prog = Program()
    is_async = kind in ("afunc", "amethod")
    avail = _avail(role, kind)
    asked = tuple(n for n, b in zip(avail, subset) if b)

    def err_impl(kw: Dict[str, Any]) -> Any:
        prog.h.err_calls.append(kw)
        if form == "nonexc_factory":
            return "not an exception"
        if form == "none_factory":
            return None  # (the forgotten ``return``)
        return MyErr("from factory")

    class Maker:
        pass

    if form == "none":
        error = None  # type: Any
    elif form == "class":
        error = MyErr
    elif form == "base_class":
        error = MyBase
    elif form == "falsy_class":
        error = Falsy
    elif form == "falsy_instance":
        error = Falsy("the instance")
    elif form == "instance":
        error = MyErr("the instance")
    elif form == "base_instance":
        error = MyBase("the instance")
    elif form in ("function", "nonexc_factory", "none_factory"):
        error = mkfn(asked, err_impl, name="make_error")
    elif form == "method":
        fn = mkfn(("me",) + asked, err_impl, name="make_error_m")
        Maker.make = fn  # type: ignore
        error = Maker().make  # type: ignore
    elif form == "invalid_int":
        error = 42
    elif form == "invalid_str":
        error = "oops"
    elif form == "invalid_class":
        error = int
    else:
        raise ValueError(form)
    prog.error_obj = error

    def cond_impl(kw: Dict[str, Any]) -> Any:
        prog.h.cond_calls += 1
        return prog.h.truth

    cparams = {"pre": ("x",), "post": ("result", "x"), "inv": ("self",)}[role]
    cond = mkfn(cparams, cond_impl, name="the_condition")
    prog.cond_name = "the_condition"

    def body_impl(kw: Dict[str, Any]) -> Any:
        prog.h.body_calls += 1
        return "res"

    kwargs = {"a_repr": _Rec(prog)}  # type: Dict[str, Any]
    if error is not None:
        kwargs["error"] = error
    try:
        if role == "inv":
            deco = icontract.invariant(cond, **kwargs)
        elif role == "pre":
            deco = icontract.require(cond, **kwargs)
        else:
            deco = icontract.ensure(cond, **kwargs)
    except ValueError as verr:
        prog.creation_error = verr
        return prog

    if role == "inv":
        ns = {"m": mkfn(("self",), body_impl, is_async=False, name="m")}
        cls = type("C", (), ns)
        prog.bare = cls
        cls2 = deco(cls)
        prog.decorated = cls2
        inst_holder = {}  # type: Dict[str, Any]

        def call(x: Any) -> Any:
            saved = prog.h.truth
            prog.h.truth = True
            inst = cls2()
            prog.h.truth = saved
            prog.h.cond_calls = 0
            inst_holder["self"] = inst
            return inst.m()

        prog.call = call
        prog.inst_holder = inst_holder  # type: ignore
        return prog

    if kind in ("func", "afunc"):
        if is_async:
            async def abody(kw: Dict[str, Any]) -> Any:
                return body_impl(kw)
            bare = _mk_async(("x", "y"), abody, "f")
        else:
            bare = mkfn(("x", "y"), body_impl, name="f")
        f = deco(bare)
        if role == "post":
            f = icontract.snapshot(mkfn(("x",), lambda kw: ("old", kw["x"]), name="cap"), name="ox")(f)
        prog.bare, prog.decorated = bare, f

        def call(x: Any) -> Any:
            r = f(x, y=SENT_Y)
            return drive(r) if is_async else r
        prog.call = call
        prog.inst_holder = {}  # type: ignore
        return prog

    # method of a plain class
    if is_async:
        async def abody2(kw: Dict[str, Any]) -> Any:
            return body_impl(kw)
        bare = _mk_async(("self", "x", "y"), abody2, "m")
    else:
        bare = mkfn(("self", "x", "y"), body_impl, name="m")
    mth = deco(bare)
    if role == "post":
        mth = icontract.snapshot(mkfn(("x",), lambda kw: ("old", kw["x"]), name="cap"), name="ox")(mth)
    cls = type("K", (), {"m": mth})
    prog.bare, prog.decorated = bare, mth
    inst_holder2 = {}  # type: Dict[str, Any]

    def call2(x: Any) -> Any:
        inst = cls()
        inst_holder2["self"] = inst
        r = inst.m(x, y=SENT_Y)
        return drive(r) if is_async else r
    prog.call = call2
    prog.inst_holder = inst_holder2  # type: ignore
    return prog


def _mk_async(params: Tuple[str, ...], impl: Any, name: str) -> Any:
    src = "async def {}({}):\n    return await __impl__({{{}}})\n".format(
        name, ", ".join(params), ", ".join("{!r}: {}".format(p, p) for p in params))
    ns = {"__impl__": impl}  # type: Dict[str, Any]
    exec(compile(src, "<C09:{}>".format(name), "exec"), ns)
    return ns[name]


def run_err(role_i: int, kind_i: int, form_i: int, s0: bool, s1: bool, s2: bool, s3: bool, s4: bool, s5: bool,
            s6: bool, t: bool, x: int, xnone: bool = False) -> Tuple[bool, bool]:
    if xnone:
        x = None  # type: ignore  # the argument itself is None
    role_i, kind_i, form_i = conc(role_i, 0, 2), conc(kind_i, 0, 3), conc(form_i, 0, len(FORMS) - 1)
    subset = (concb(s0), concb(s1), concb(s2), concb(s3), concb(s4), concb(s5), concb(s6))
    role, kind, form = ROLES[role_i], KINDS[kind_i], FORMS[form_i]
    if role == "inv":
        kind = "method"
    avail = _avail(role, kind)
    subset = subset[: len(avail)]
    if form not in ("function", "method", "nonexc_factory", "none_factory"):
        subset = tuple(False for _ in avail)
    key = (role, kind, form, subset)
    with untraced():
        prog = _CACHE.get(key)
        if prog is None:
            prog = _build(role, kind, form, subset)
            _CACHE[key] = prog
        prog.h = Holder()
    h = prog.h
    h.truth = t
    ok = True
    invalid = form.startswith("invalid")
    if invalid:
        # rejected with ValueError when the decorator is created; nothing was decorated
        ok = isinstance(prog.creation_error, ValueError) and prog.decorated is None
        note((role, kind, form, "rejected"), True)
        return ok, True
    if prog.creation_error is not None:
        return False, False

    def one_call() -> Tuple[str, Any]:
        try:
            return ("ret", fresh(prog.call, x))
        except (AssertionError, MyErr, MyBase, TypeError, Falsy) as err:
            return ("raise", err)

    out1 = one_call()
    errs_first = len(h.err_calls)
    violated = not t
    asked = tuple(n for n, b in zip(avail, subset) if b)
    if not violated:
        if out1 != ("ret", "res") or h.err_calls:
            ok = False
    else:
        if out1[0] != "raise":
            ok = False
        else:
            e = out1[1]
            if form == "none":
                if type(e) is not icontract.ViolationError or not isinstance(e, AssertionError):
                    ok = False
                elif prog.cond_name not in str(e):
                    ok = False
            elif form in ("class", "base_class", "falsy_class"):
                if type(e) is not prog.error_obj:
                    ok = False
                elif len(e.args) != 1 or not isinstance(e.args[0], str) or prog.cond_name not in e.args[0]:
                    ok = False
            elif form in ("instance", "base_instance", "falsy_instance"):
                if e is not prog.error_obj:
                    ok = False
                out2 = one_call()  # the same object again on the second violation
                if out2[0] != "raise" or out2[1] is not prog.error_obj:
                    ok = False
            elif form in ("function", "method"):
                if type(e) is not MyErr or e.args != ("from factory",):
                    ok = False
                if errs_first != 1:
                    ok = False
                else:
                    kw = h.err_calls[0]
                    got = tuple(sorted(k for k in kw if k != "me"))
                    if got != tuple(sorted(asked)):
                        ok = False
                    if "x" in kw and kw["x"] is not x:
                        ok = False
                    if "y" in kw and kw["y"] is not SENT_Y:
                        ok = False
                    if "self" in kw and kw["self"] is not prog.inst_holder.get("self"):  # type: ignore
                        ok = False
                    if "result" in kw and kw["result"] != "res":
                        ok = False
                    if "OLD" in kw and (kw["OLD"].ox[0] != "old" or kw["OLD"].ox[1] is not x):
                        ok = False
                    if "_ARGS" in kw:
                        exp_args = (x,) if kind in ("func", "afunc") else (prog.inst_holder.get("self"), x)  # type: ignore
                        if len(kw["_ARGS"]) != len(exp_args) or any(a is not b for a, b in zip(kw["_ARGS"], exp_args)):
                            ok = False
                    if "_KWARGS" in kw and (list(kw["_KWARGS"].keys()) != ["y"] or kw["_KWARGS"]["y"] is not SENT_Y):
                        ok = False
            elif form in ("nonexc_factory", "none_factory"):
                if type(e) is not TypeError or errs_first != 1:
                    ok = False
        # pre: body not entered; post/inv-before: per C01/C02/C03 (not asserted here)
    witness = violated and out1[0] == "raise"
    note((role, kind, form, asked, out1[0]), witness)
    return ok, witness


ALL = ["role_i", "kind_i", "form_i", "s0", "s1", "s2", "s3", "s4", "s5", "s6", "t", "x", "xnone"]


def harnesses(tier: str) -> List[H]:
    out = []  # type: List[H]
    for role_i, role in enumerate(ROLES):
        kinds = [0] if role == "inv" else ([0, 1, 2] if tier == "quick" else [0, 1, 2, 3])
        for kind_i in kinds:
            nbits = len(_avail(role, KINDS[kind_i] if role != "inv" else "method"))
            for (gname, lo, hi) in FORM_GROUPS:
                bits = nbits if gname != "plain" else 0
                params = [I("form_i", lo, hi)] + [B("s%d" % i) for i in range(bits)] + [B("t"), I("x", -4, 12), B("xnone")]
                defaults = {"role_i": role_i, "kind_i": kind_i}
                for i in range(bits, 7):
                    defaults["s%d" % i] = False
                name = "err_{}_{}_{}".format(role, KINDS[kind_i] if role != "inv" else "class", gname)
                out.append(H(name, bind(run_err, (), ALL, defaults, [p.name for p in params]), params, tiers=(tier,),
                             timeout=400,
                             family="role={} callable={}: error form in {}{}".format(
                                 role, KINDS[kind_i] if role != "inv" else "class", FORMS[lo:hi + 1],
                                 "; every subset of the {} names available to this role".format(nbits) if bits else ""),
                             family_size=(hi - lo + 1) * 2 ** bits))
    return out
