"""C03 - invariants are checked around every public operation on a constructed object."""
import contextvars
import dataclasses
from typing import Any, Dict, List, NamedTuple, Optional, Tuple

import icontract

from vfw.hlib import Suspend, Tag, conc, drive, fresh, note, untraced
from vfw.hspec import B, H, I, bind

CHECK_ON = {"CALL": icontract.InvariantCheckEvent.CALL, "SETATTR": icontract.InvariantCheckEvent.SETATTR,
            "ALL": icontract.InvariantCheckEvent.ALL}
ON_NAMES = ["CALL", "SETATTR", "ALL"]

#: class shapes
SHAPES = ["plain", "slots", "dataclass", "namedtuple", "dbc", "dbc_sub_first", "dbc_sub_middle", "dbc_sub_last",
          "dbc_sub_members", "plain_getattribute", "dbc_sub_noinit", "dbc_sub_prop_setter",
          # a constructor given as an alias (``__init__ = setup``); a built-in container subclass without a Python
          # ``__init__``; a subclass adding ``__init__`` to a base which has none (the base's ``__new__`` is wrapped)
          "plain_init_alias", "list_sub", "dbc_sub_init_over_noinit",
          # a subclass defining __new__ (calling super().__new__) over a base without __init__ whose __new__ is wrapped
          "dbc_sub_new_over_noinit"]

#: operations on a constructed instance; (name, wrapped-by-CALL-invariants?)
OPS = [("pub", True), ("_prot", False), ("__priv", False), ("__call__", True), ("__len__", True), ("__eq__", True),
       ("prop_get", True), ("prop_set", True), ("prop_del", True), ("cm", False), ("sm", False), ("__repr__", False),
       ("getattr", False), ("setattr", False), ("construct", False), ("sub_new_method", True), ("apub", True)]
OP_NAMES = [o[0] for o in OPS]


class Holder:
    def __init__(self) -> None:
        self.log = []  # type: List[Tuple[Any, ...]]
        self.truth = []  # type: List[Any]
        self.k = 0
        self.constructing = 0

    def next_truth(self) -> Any:
        if self.k < len(self.truth):
            v = self.truth[self.k]
        else:
            v = True
        self.k += 1
        return v


class World:
    """A class (hierarchy) with invariants, built once per (shape, invariants) and re-used across paths."""

    def __init__(self, shape: str, invs: Tuple[Tuple[str, str], ...]) -> None:
        # invs: ((check_on, where)), where in {"base", "sub"}; applied in the given order (first = nearest the class)
        self.shape = shape
        self.invs = invs
        self.h = Holder()
        w = self

        def body(name: str, ret: Any = None):  # type: ignore
            def fn(self: Any, *a: Any) -> Any:
                w.h.log.append(("body", name))
                return ret
            return fn

        def mk_inv(idx: int, on: str):  # type: ignore
            def cond(self: Any) -> Any:
                if w.h.constructing:
                    w.h.log.append(("inv-during-construction", idx))
                if shape == "list_sub" and list.__len__(self) == 0:
                    # every instance of the family is constructed from a non-empty list: an empty one has not been
                    # initialised by ``list.__init__`` yet
                    w.h.log.append(("inv-during-construction", idx))
                w.h.log.append(("inv", idx))
                return w.h.next_truth()
            return icontract.invariant(cond, error=lambda: Tag(("inv", idx)), check_on=CHECK_ON[on])

        def members() -> Dict[str, Any]:
            async def apub(self: Any) -> Any:
                w.h.log.append(("body", "apub"))
                await Suspend()
                return 1
            ns = {
                "apub": apub,
                "pub": body("pub", 1),
                "_prot": body("_prot", 1),
                "__call__": body("__call__", 1),
                "__len__": body("__len__", 0),
                "__eq__": body("__eq__", True),
                "__hash__": None,
                "__repr__": lambda self: (w.h.log.append(("body", "__repr__")) or "<K>"),
                "p": property(body("prop_get", 1), body("prop_set"), body("prop_del")),
                "cm": classmethod(lambda cls: (w.h.log.append(("body", "cm")) or 1)),
                "sm": staticmethod(lambda: (w.h.log.append(("body", "sm")) or 1)),
            }  # type: Dict[str, Any]
            ns["_K__priv"] = body("__priv", 1)
            return ns

        def init_plain(self: Any) -> None:
            w.h.constructing += 1
            try:
                w.h.log.append(("body", "__init__"))
                self.x = 1
                self.pub()  # a public method called while the object is still under construction
            finally:
                w.h.constructing -= 1

        def setup(self: Any) -> None:
            init_plain(self)

        init_plain.__name__ = "__init__"  # as a ``def __init__`` in a class body would be
        base_invs = [(i, on) for i, (on, where) in enumerate(invs) if where == "base"]
        sub_invs = [(i, on) for i, (on, where) in enumerate(invs) if where == "sub"]

        if shape in ("plain", "plain_getattribute"):
            ns = members()
            ns["__init__"] = init_plain
            if shape == "plain_getattribute":
                def __getattribute__(self: Any, name: str) -> Any:
                    if name == "x":
                        w.h.log.append(("body", "getattr"))
                    return object.__getattribute__(self, name)
                ns["__getattribute__"] = __getattribute__
            cls = type("K", (), ns)
        elif shape == "plain_init_alias":
            ns = members()
            ns["__init__"] = setup  # class K: __init__ = setup
            cls = type("K", (), ns)
        elif shape == "list_sub":
            ns = members()
            del ns["__eq__"], ns["__hash__"], ns["__len__"], ns["__repr__"]
            cls = type("K", (list,), ns)
        elif shape == "slots":
            ns = members()
            ns["__slots__"] = ("x", "y")
            ns["__init__"] = init_plain
            cls = type("K", (), ns)
        elif shape == "dataclass":
            ns = members()
            ns["__annotations__"] = {"x": int}
            ns["x"] = 1
            del ns["__eq__"], ns["__repr__"], ns["__hash__"]
            cls = dataclasses.dataclass(type("K", (), ns))
        elif shape == "namedtuple":
            NT = NamedTuple("NT", [("x", int)])
            ns = members()
            del ns["__eq__"], ns["__hash__"], ns["__len__"]
            cls = type("K", (NT,), ns)
        elif shape == "dbc":
            ns = members()
            ns["__init__"] = init_plain
            cls = icontract.DBCMeta("K", (icontract.DBC,), ns)
        else:
            # subclass shapes on DBC: the base carries the "base" invariants, the subclass the "sub" ones
            ns = members()
            if shape in ("dbc_sub_init_over_noinit", "dbc_sub_new_over_noinit"):
                ns["x"] = 1
            else:
                ns["__init__"] = init_plain
            base = icontract.DBCMeta("Base", (icontract.DBC,), ns)
            for (i, on) in base_invs:
                base = mk_inv(i, on)(base)
            base_invs = []
            sub_ns = {}  # type: Dict[str, Any]
            pos = {"dbc_sub_first": 0, "dbc_sub_middle": 1, "dbc_sub_last": 2}.get(shape)
            if pos is not None or shape in ("dbc_sub_members", "dbc_sub_init_over_noinit"):
                def init_sub(self: Any) -> None:
                    w.h.constructing += 1
                    try:
                        if pos == 0 or pos is None:
                            base.__init__(self)
                        w.h.log.append(("body", "sub.__init__"))
                        self.pub()
                        self.y = 2
                        if pos == 1:
                            base.__init__(self)
                            self.pub()
                            self.y = 3
                        if pos == 2:
                            base.__init__(self)
                    finally:
                        w.h.constructing -= 1
                init_sub.__name__ = "__init__"
                sub_ns["__init__"] = init_sub
            if shape == "dbc_sub_new_over_noinit":
                def new_sub(klass: Any) -> Any:
                    w.h.constructing += 1
                    try:
                        inst = base.__new__(klass)
                        w.h.log.append(("body", "sub.__new__"))
                        # (no attribute assignment or public call on the new object in here: __new__ sets no in-progress
                        # mark, so those would be checked on the unfinished object - a stated limit, DESIGN 7.3)
                        inst.__dict__["y"] = 2
                        return inst
                    finally:
                        w.h.constructing -= 1
                new_sub.__name__ = "__new__"
                sub_ns["__new__"] = new_sub
            if shape == "dbc_sub_prop_setter":
                # the subclass re-uses the inherited getter/deleter and supplies a new setter (``@Base.p.setter``)
                sub_ns["p"] = base.__dict__["p"].setter(body("prop_set"))
            if shape in ("dbc_sub_members", "dbc_sub_noinit"):
                sub_ns["pub"] = body("pub", 2)  # overridden
                sub_ns["sub_new_method"] = body("sub_new_method", 3)  # added
            cls = icontract.DBCMeta("K", (base,), sub_ns)
        for (i, on) in base_invs:
            cls = mk_inv(i, on)(cls)
        for (i, on) in sub_invs:
            cls = mk_inv(i, on)(cls)
        self.cls = cls
        self.is_sub = shape.startswith("dbc_sub")

    def construct(self) -> Any:
        if self.shape in ("namedtuple", "dataclass"):
            return self.cls(1)
        if self.shape == "list_sub":
            return self.cls([1, 2])
        return self.cls()


_CACHE = {}  # type: Dict[Tuple[Any, ...], World]


def _inv_config(n_inv: int, on0: int, on1: int, where1: int, shape: str) -> Tuple[Tuple[str, str], ...]:
    invs = [(ON_NAMES[on0], "base")]
    if n_inv == 2:
        invs.append((ON_NAMES[on1], "sub" if (where1 == 1 and shape.startswith("dbc_sub")) else "base"))
    return tuple(invs)


def expected_for(w: World, op: str, truth_iter: Any) -> Tuple[List[Tuple[Any, ...]], Optional[Tuple[Any, ...]]]:
    """Reference rule table: events and the label of the error raised (None = returns)."""
    invs = w.invs
    # evaluation order: inherited (base) invariants first, then the subclass's, each in application order
    order = [i for i, (_, where) in enumerate(invs) if where == "base"] + \
            [i for i, (_, where) in enumerate(invs) if where == "sub"]
    on_call = [i for i in order if invs[i][0] in ("CALL", "ALL")]
    on_set = [i for i in order if invs[i][0] in ("SETATTR", "ALL")]
    ev = []  # type: List[Tuple[Any, ...]]

    def run(sel: List[int]) -> Optional[Tuple[Any, ...]]:
        for i in sel:
            ev.append(("inv", i))
            if not truth_iter():
                return ("inv", i)
        return None

    if op == "construct":
        ev.extend(_ctor_bodies(w))
        return ev, run(order)
    wrapped = dict(OPS)[op]
    if op == "setattr":
        if on_set:
            bad = run(on_set)
            if bad:
                return ev, bad
            return ev, run(on_set)
        return ev, None
    if op == "prop_set" and on_set:
        # ``inst.p = v`` is an attribute assignment first: with attribute-set checking requested the
        # SETATTR-selected invariants surround it, and the setter called from inside ``__setattr__``
        # is a re-entrant call on the same object (unchecked, see C10)
        bad = run(on_set)
        if bad:
            return ev, bad
        ev.append(("body", op))
        return ev, run(on_set)
    if wrapped:
        bad = run(on_call)
        if bad:
            return ev, bad
        ev.append(("body", op))
        return ev, run(on_call)
    ev.append(("body", op))
    return ev, None


def _ctor_bodies(w: World) -> List[Tuple[Any, ...]]:
    s = w.shape
    if s in ("dataclass", "namedtuple", "list_sub"):
        return []
    if s == "dbc_sub_init_over_noinit":
        return [("body", "sub.__init__"), ("body", "pub")]
    if s == "dbc_sub_new_over_noinit":
        return [("body", "sub.__new__")]
    if s in ("dbc_sub_noinit", "dbc_sub_prop_setter"):
        return [("body", "__init__"), ("body", "pub")]
    init = [("body", "__init__"), ("body", "pub")]
    sub_pub = ("body", "pub")
    if s in ("plain", "slots", "dbc", "plain_getattribute", "plain_init_alias"):
        return init
    if s in ("dbc_sub_first", "dbc_sub_members"):
        return init + [("body", "sub.__init__"), sub_pub]
    if s == "dbc_sub_middle":
        return [("body", "sub.__init__"), sub_pub] + init + [sub_pub]
    if s == "dbc_sub_last":
        return [("body", "sub.__init__"), sub_pub] + init
    raise ValueError(s)


def do_op(w: World, inst: Any, op: str) -> Any:
    if op == "pub":
        return inst.pub()
    if op == "_prot":
        return inst._prot()
    if op == "__priv":
        return inst._K__priv()
    if op == "__call__":
        return inst()
    if op == "__len__":
        return len(inst)
    if op == "__eq__":
        return inst == 5
    if op == "prop_get":
        return inst.p
    if op == "prop_set":
        inst.p = 3
        return None
    if op == "prop_del":
        del inst.p
        return None
    if op == "cm":
        return inst.cm()
    if op == "sm":
        return inst.sm()
    if op == "__repr__":
        return inst.__repr__()  # (the builtin repr() is re-implemented by CrossHair; call the method itself)
    if op == "getattr":
        return inst.x
    if op == "setattr":
        inst.y = 7
        return None
    if op == "construct":
        return w.construct()
    if op == "sub_new_method":
        return inst.sub_new_method()
    if op == "apub":
        return drive(inst.apub())  # an ``async def`` public method, awaited to completion
    raise ValueError(op)


def applicable(w: World, op: str) -> bool:
    s = w.shape
    if op == "sub_new_method":
        return s in ("dbc_sub_members", "dbc_sub_noinit")
    if op == "getattr":
        return s == "plain_getattribute"
    if op == "setattr":
        return s not in ("namedtuple",)  # tuples have no instance dict / settable attribute
    if s == "dataclass" and op in ("__eq__", "__repr__"):
        return False  # generated by dataclass - kept out of the family
    if s in ("namedtuple", "list_sub") and op in ("__eq__", "__len__", "__repr__"):
        return False  # C-implemented on tuple / list: "defined in Python" does not apply
    return True


def run_ops(shape_i: int, n_inv: int, on0: int, on1: int, where1: int, op0: int, op1: int, op2: int, n_ops: int,
            s0: bool, s1: bool, s2: bool, s3: bool, s4: bool, s5: bool, s6: bool, s7: bool,
            s8: bool, s9: bool, s10: bool, s11: bool) -> Tuple[bool, bool]:
    shape_i = conc(shape_i, 0, len(SHAPES) - 1)
    n_inv, on0, on1, where1 = conc(n_inv, 1, 2), conc(on0, 0, 2), conc(on1, 0, 2), conc(where1, 0, 1)
    op0, op1, op2, n_ops = conc(op0, 0, len(OPS) - 1), conc(op1, 0, len(OPS) - 1), conc(op2, 0, len(OPS) - 1), conc(n_ops, 1, 3)
    shape = SHAPES[shape_i]
    invs = _inv_config(n_inv, on0, on1, where1, shape)
    key = (shape, invs)
    with untraced():
        w = _CACHE.get(key)
        if w is None:
            w = World(shape, invs)
            _CACHE[key] = w
        w.h = Holder()
    h = w.h
    ops = [OP_NAMES[o] for o in (op0, op1, op2)[:n_ops]]
    if not all(applicable(w, op) for op in ops):
        return True, False
    # construct with all invariants true (the constructor clause is exercised by the op "construct")
    # (one brand-new context per path - CrossHair iterations share the process context - in which the whole sequence of
    # operations runs, as successive operations of one thread / task do)
    ctx = contextvars.Context()
    inst = ctx.run(w.construct)
    ok = True
    if any(e[0] == "inv-during-construction" for e in h.log):
        ok = False
    h.truth = [s0, s1, s2, s3, s4, s5, s6, s7, s8, s9, s10, s11]
    witness = False
    trace = []
    for op in ops:
        del h.log[:]
        start = h.k  # the truth sequence keeps being consumed across the operations
        try:
            ctx.run(do_op, w, inst, op)
            raised = None
        except Tag as err:
            raised = err.label
        got = list(h.log)
        # the reference consumes the same truth values in its own order
        pos = [start]

        def truth_iter() -> Any:
            v = h.truth[pos[0]] if pos[0] < len(h.truth) else True
            pos[0] += 1
            return v

        exp_ev, exp_raise = expected_for(w, op, truth_iter)
        got_main = [e for e in got if e[0] != "inv-during-construction"]
        if any(e[0] == "inv-during-construction" for e in got):
            ok = False
        if got_main != exp_ev or raised != exp_raise:
            ok = False
        if raised is not None:
            witness = True
        trace.append((op, tuple(got_main), raised))
    note((shape, invs, tuple(trace)), witness)
    return ok, witness


ALL = ["shape_i", "n_inv", "on0", "on1", "where1", "op0", "op1", "op2", "n_ops"] + ["s%d" % i for i in range(12)]


def harnesses(tier: str) -> List[H]:
    out = []  # type: List[H]
    for si, shape in enumerate(SHAPES):
        for n_inv in (1, 2):
            seqs = [1] if tier == "quick" else [2]
            if n_inv == 1 and shape in ("plain", "dbc_sub_members") and tier == "quick":
                seqs.append(2)
            for n_ops in seqs:
                split_on0 = [None] if n_ops == 1 else [0, 1, 2]
                for fixed_on0 in split_on0:
                    params = [I("on0", 0, 2)] if fixed_on0 is None else []
                    defaults = {"shape_i": si, "n_inv": n_inv, "on1": 0, "where1": 0, "op1": 0, "op2": 0,
                                "n_ops": n_ops}  # type: Dict[str, Any]
                    if fixed_on0 is not None:
                        defaults["on0"] = fixed_on0
                    if n_inv == 2:
                        params += [I("on1", 0, 2)]
                        if shape.startswith("dbc_sub"):
                            params += [I("where1", 0, 1)]
                    params += [I("op%d" % k, 0, len(OPS) - 1) for k in range(n_ops)]
                    nbits = 2 * n_inv * n_ops
                    params += [B("s%d" % i) for i in range(nbits)]
                    for i in range(nbits, 12):
                        defaults["s%d" % i] = True
                    name = "ops_{}_{}inv_{}op{}".format(shape, n_inv, n_ops, "" if fixed_on0 is None else "_on%d" % fixed_on0)
                    out.append(H(name, bind(run_ops, (), ALL, defaults, [p.name for p in params]), params, tiers=(tier,),
                                 timeout=900 if tier == "quick" else 3600,
                                 family="class shape {}; {} invariant(s) with check_on in {{CALL, SETATTR, ALL}}{}; sequences of {} "
                                        "operation(s) from {}; invariant truth values consumed from a symbolic sequence".format(
                                            shape, n_inv, " declared on base or subclass" if shape.startswith("dbc_sub") else "",
                                            n_ops, OP_NAMES),
                                 family_size=(3 ** n_inv) * len(OPS) ** n_ops))
    return out
