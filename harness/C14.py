"""C14 - satisfied contracts are transparent."""
import abc
import dataclasses
import functools
import inspect
from typing import Any, Dict, List, NamedTuple, Optional, Tuple

import icontract
import icontract._checkers

from vfw.hlib import BodyBase, BodyError, Tag, conc, concb, drive, fresh, note, untraced
from vfw.hspec import B, H, I, bind

# ---------------------------------------------------------------------------------------------
# 1. stacks of contract decorators, possibly separated by foreign functools.wraps decorators
# ---------------------------------------------------------------------------------------------
SYM = ["none", "require", "ensure", "snapshot", "foreign"]


class StackWorld:
    def __init__(self, seq: Tuple[int, ...], flavour: int, fdict: bool = True) -> None:
        """seq: decorators applied innermost first; flavour 0 def, 1 async def, 2 abstract method; fdict: the foreign
        decorators copy the ``__dict__`` of what they wrap (functools.wraps default) or not (``updated=()``)."""
        self.fdict = fdict
        self.truth = {}  # type: Dict[int, Any]
        self.log = []  # type: List[Tuple[Any, ...]]
        self.body_out = 0
        self.error = None  # type: Optional[BaseException]
        self.result = object()
        self.exc = None  # type: Optional[BaseException]
        w = self
        is_async = flavour == 1

        if is_async:
            async def target(x: int, y: "str" = "d") -> Any:
                """The docstring."""
                return w.body((x, y))
        else:
            def target(x: int, y: "str" = "d") -> Any:  # type: ignore
                """The docstring."""
                return w.body((x, y))
        if flavour == 2:
            target = abc.abstractmethod(target)
        self.bare = target
        f = target
        self.n_pre = self.n_post = 0
        try:
            for pos, sym in enumerate(seq):
                name = SYM[sym]
                if name == "require":
                    f = icontract.require(self._cond(pos, ("x",)), error=self._err(pos))(f)
                    self.n_pre += 1
                elif name == "ensure":
                    f = icontract.ensure(self._cond(pos, ("result", "x")), error=self._err(pos))(f)
                    self.n_post += 1
                elif name == "snapshot":
                    f = icontract.snapshot(self._cap(pos), name="s%d" % pos)(f)
                elif name == "foreign":
                    f = self._foreign(f, pos, is_async)
        except ValueError as err:
            self.error = err
        self.f = f

    def body(self, args: Tuple[Any, ...]) -> Any:
        self.log.append(("body",) + args)
        if self.body_out == 1:
            self.exc = BodyError()
            raise self.exc
        if self.body_out == 2:
            self.exc = BodyBase()
            raise self.exc
        return self.result

    def _cond(self, pos: int, params: Tuple[str, ...]) -> Any:
        w = self
        if params == ("x",):
            def c(x: Any) -> Any:
                w.log.append(("cond", pos))
                return w.truth.get(pos, True)
        else:
            def c(result: Any, x: Any) -> Any:  # type: ignore
                w.log.append(("cond", pos))
                return w.truth.get(pos, True)
        return c

    def _cap(self, pos: int) -> Any:
        w = self
        return lambda x: (w.log.append(("snap", pos)), x)[1]

    def _err(self, pos: int) -> Any:
        return lambda: Tag(pos)

    def _foreign(self, fn: Any, pos: int, is_async: bool) -> Any:
        w = self
        updated = functools.WRAPPER_UPDATES if self.fdict else ()
        if is_async:
            @functools.wraps(fn, updated=updated)
            async def wrapper(*a: Any, **k: Any) -> Any:
                w.log.append(("foreign", pos))
                return await fn(*a, **k)
        else:
            @functools.wraps(fn, updated=updated)
            def wrapper(*a: Any, **k: Any) -> Any:  # type: ignore
                w.log.append(("foreign", pos))
                return fn(*a, **k)
        return wrapper


_STACKS = {}  # type: Dict[Tuple[Any, ...], StackWorld]
META = ["__name__", "__qualname__", "__doc__", "__module__", "__annotations__"]


def run_stack(flavour: int, d0: int, d1: int, d2: int, d3: int, d4: int, d5: int, bo: int,
              t0: bool, t1: bool, t2: bool, t3: bool, t4: bool, t5: bool, x: int, fd: bool = True) -> Tuple[bool, bool]:
    seq = tuple(conc(d, 0, 4) for d in (d0, d1, d2, d3, d4, d5))
    bo = conc(bo, 0, 2)
    fd = True if fd else False
    with untraced():
        w = _STACKS.get((seq, flavour, fd))
        if w is None:
            w = StackWorld(seq, flavour, fd)
            _STACKS[(seq, flavour, fd)] = w
        static_ok, expect_error = _static_checks(w, seq, flavour)
    ok = static_ok
    if expect_error:
        note(("stack", flavour, seq, "rejected"), True)
        return ok, True
    truths = [t0, t1, t2, t3, t4, t5]
    w.truth = {pos: truths[pos] for pos in range(6)}
    w.body_out = bo
    w.result = object()
    del w.log[:]

    def call() -> Any:
        r = w.f(x, y="k")
        return drive(r) if flavour == 1 else r

    try:
        got = ("ret", fresh(call))  # type: Tuple[str, Any]
    except Tag as err:
        got = ("tag", err.label)
    except (BodyError, BodyBase) as err:
        got = ("raise", err)
    # reference: requires nearest-first, body, ensures nearest-first
    pres = [p for p, s in enumerate(seq) if SYM[s] == "require"]
    posts = [p for p, s in enumerate(seq) if SYM[s] == "ensure"]
    first_bad_pre = next((p for p in pres if not truths[p]), None)
    if first_bad_pre is not None:
        want = ("tag", first_bad_pre)  # type: Tuple[str, Any]
        if got != want or any(e[0] == "body" for e in w.log):
            ok = False
    else:
        body_events = [e for e in w.log if e[0] == "body"]
        # the body receives the identical objects, positional stays positional and keyword stays keyword
        if len(body_events) != 1 or body_events[0][1] is not x or body_events[0][2] != "k":
            ok = False
        if bo != 0:
            if got[0] != "raise" or got[1] is not w.exc:
                ok = False
        else:
            first_bad_post = next((p for p in posts if not truths[p]), None)
            if first_bad_post is not None:
                if got != ("tag", first_bad_post):
                    ok = False
            elif got[0] != "ret" or got[1] is not w.result:
                ok = False
    # no decorator of the stack is dropped: every foreign wrapper above the one checker runs exactly once, those
    # below it exactly once iff the call gets past the preconditions
    contract_pos = [p for p, sy in enumerate(seq) if SYM[sy] in ("require", "ensure")]
    checker_pos = contract_pos[0] if contract_pos else None
    for p, sy in enumerate(seq):
        if SYM[sy] != "foreign":
            continue
        n = sum(1 for e in w.log if e == ("foreign", p))
        reached = checker_pos is None or p > checker_pos or first_bad_pre is None
        if n != (1 if reached else 0):
            ok = False
    # every contract of the stack is enforced: each was evaluated unless an earlier one failed
    witness = len(pres) + len(posts) >= 2 and "foreign" in [SYM[s] for s in seq] and got[0] == "ret"
    note(("stack", flavour, seq, fd, bo, got[0]), witness)
    return ok, witness


def _static_checks(w: StackWorld, seq: Tuple[int, ...], flavour: int) -> Tuple[bool, bool]:
    """Metadata, __wrapped__ chain, single checker.  Returns (ok, the stack must be rejected)."""
    names = [SYM[s] for s in seq]
    # a snapshot needs a postcondition below it
    must_reject = False
    seen_post = False
    for n in names:
        if n == "ensure":
            seen_post = True
        if n == "snapshot" and not seen_post:
            must_reject = True
    if must_reject:
        return isinstance(w.error, ValueError), True
    if w.error is not None:
        return False, True
    ok = True
    f, bare = w.f, w.bare
    for attr in META:
        if getattr(f, attr, None) != getattr(bare, attr, None):
            ok = False
    if inspect.signature(f) != inspect.signature(bare):
        ok = False
    if inspect.iscoroutinefunction(f) != inspect.iscoroutinefunction(bare):
        ok = False
    if getattr(f, "__isabstractmethod__", False) != getattr(bare, "__isabstractmethod__", False):
        ok = False
    chain = list(icontract._checkers._walk_decorator_stack(f))
    if chain[-1] is not bare:
        ok = False
    n_contracts = sum(1 for n in names if n in ("require", "ensure"))
    checker = icontract._checkers.find_checker(f)
    if n_contracts == 0:
        if checker is not None or (all(n == "none" for n in names) and f is not bare):
            ok = False
    else:
        # exactly one checker: exactly one function in the chain *owns* contract lists (others may alias them)
        owners = []
        for fn in chain:
            pre = getattr(fn, "__preconditions__", None)
            if pre is not None and not any(pre is getattr(o, "__preconditions__") for o in owners):
                owners.append(fn)
        if len(owners) != 1 or checker is None:
            ok = False
        else:
            n_pre = sum(len(g) for g in checker.__preconditions__)
            if n_pre != w.n_pre or len(checker.__postconditions__) != w.n_post:
                ok = False
            if len(checker.__postcondition_snapshots__) != names.count("snapshot"):
                ok = False
    return ok, False


# ---------------------------------------------------------------------------------------------
# 2. classes given invariants: same class object; it and its subclasses can be used as before
# ---------------------------------------------------------------------------------------------
CLASS_SHAPES = ["plain_init", "plain_noinit", "slots", "dataclass", "namedtuple", "own_new", "dbc_init", "dbc_noinit",
                "plain_this", "dbc_property_doc",
                # __new__ acting as a factory (returns an object of another class); a diamond whose one arm defines __new__
                "factory_new", "dbc_diamond_new"]
SUB_SHAPES = ["none", "sub_plain", "sub_init_args", "sub_new_args", "sub_init_super"]


def _make_class(shape: str, sub: str, decorate: bool, log: List[Any]) -> Tuple[Any, Any, Tuple[Any, ...]]:
    """Returns (base class, class to instantiate, constructor args)."""
    dbc = shape.startswith("dbc")
    meta = icontract.DBCMeta if dbc else type

    # an undecorated parent providing helpers which the class merely inherits
    class Helpers:
        @staticmethod
        def static_helper(v: Any) -> Any:
            return ("static", v)

        @classmethod
        def class_helper(cls: Any) -> Any:
            return ("class", cls.__name__)

        def _protected_helper(self: Any) -> Any:
            return "protected"

    bases = (Helpers, icontract.DBC) if dbc else (Helpers,)
    args = ()  # type: Tuple[Any, ...]

    def pub(self: Any) -> Any:
        return "pub"
    ns = {"pub": pub}  # type: Dict[str, Any]
    if shape in ("plain_init", "dbc_init", "dbc_property_doc"):
        def __init__(self: Any, a: Any = 1) -> None:
            self.a = a
        ns["__init__"] = __init__
    if shape == "plain_this":
        # the first parameter of the methods is not called ``self``
        def init_this(this: Any, a: Any = 1) -> None:
            this.a = a

        def pub_this(this: Any) -> Any:
            return "pub"
        init_this.__name__ = "__init__"
        pub_this.__name__ = "pub"
        ns["__init__"] = init_this
        ns["pub"] = pub_this
    if shape == "dbc_property_doc":
        # a contracted property in a DBC parent; the class under test overrides it with an explicit docstring
        def base_get(self: Any) -> Any:
            return 1
        if decorate:
            parent = icontract.DBCMeta("Parent", (Helpers, icontract.DBC), {
                "prop": property(icontract.ensure(lambda result: True)(base_get))})
        else:
            parent = type("Parent", (Helpers,), {"prop": property(base_get)})  # the bare twin has no contracts at all
            meta = type

        def own_get(self: Any) -> Any:
            return 2
        ns["prop"] = property(own_get, doc="explicit doc")
        bases = (parent,)
    if shape == "slots":
        def __init__(self: Any, a: Any = 1) -> None:  # type: ignore
            self.a = a
        ns["__init__"] = __init__
        ns["__slots__"] = ("a",)
    if shape == "own_new":
        def __new__(cls: Any, a: Any = 1) -> Any:
            inst = object.__new__(cls)
            inst.a = a
            return inst
        ns["__new__"] = __new__
    if shape == "factory_new":
        class Product(Helpers):
            a = "product"

            def pub(self: Any) -> Any:
                return "pub"

        def factory_new(cls: Any, a: Any = 1) -> Any:
            return Product()
        factory_new.__name__ = "__new__"
        ns["__new__"] = factory_new
    if shape == "dataclass":
        ns["__annotations__"] = {"a": int}
        ns["a"] = 1
        base = dataclasses.dataclass(type("K", (Helpers,), ns))
    elif shape == "namedtuple":
        NT = NamedTuple("NT", [("a", int)])
        base = type("K", (NT, Helpers), ns)
        args = (1,)
    else:
        base = meta("K", bases, ns)
    if decorate:
        deco = icontract.invariant(lambda self: log.append("inv") or True, error=lambda: Tag("inv"))
        res = deco(base)
        if res is not base:
            raise AssertionError("invariant(...)(cls) is not cls")
    cls = base
    if shape == "dbc_diamond_new":
        # K <- B, K <- C (C defines __new__), D(B, C): constructing D must go through C.__new__
        mk = type(base)
        root = base
        arm_b = mk("B", (root,), {})

        def c_new(klass: Any, *a: Any) -> Any:
            inst = root.__new__(klass)
            inst.a = "made by C.__new__"
            return inst
        c_new.__name__ = "__new__"
        arm_c = mk("C", (root,), {"__new__": c_new})
        base = cls = mk("D", (arm_b, arm_c), {})
    if sub != "none":
        sns = {}  # type: Dict[str, Any]
        if sub == "sub_init_args":
            def sub_init(self: Any, b: Any) -> None:
                self.b = b
            sub_init.__name__ = "__init__"
            sns["__init__"] = sub_init
            if shape in ("slots",):
                sns["__slots__"] = ("b",)
            args = (5,)
        elif sub == "sub_init_super":
            def sub_init2(self: Any, b: Any) -> None:
                base.__init__(self)
                self.b = b
            sub_init2.__name__ = "__init__"
            sns["__init__"] = sub_init2
            if shape in ("slots",):
                sns["__slots__"] = ("b",)
            args = (5,)
        elif sub == "sub_new_args":
            def sub_new(klass: Any, b: Any) -> Any:
                inst = base.__new__(klass) if shape != "namedtuple" else base.__new__(klass, 1)
                return inst
            sub_new.__name__ = "__new__"
            sns["__new__"] = sub_new
            args = (5,)
        if shape == "slots" and "__slots__" not in sns:
            sns["__slots__"] = ()
        cls = type(base)("Sub", (base,), sns)
    return base, cls, args


def _use(cls: Any, args: Tuple[Any, ...]) -> Tuple[Any, ...]:
    try:
        inst = cls(*args)
    except (TypeError, AttributeError) as err:
        return ("ctor-error", type(err).__name__)
    state = []
    for name in ("a", "b"):
        state.append(getattr(inst, name, "<unset>"))
    helpers = (cls.static_helper(3), inst.static_helper(4), cls.class_helper(), inst.class_helper(), inst._protected_helper(),
               getattr(getattr(cls, "prop", None), "__doc__", "<no prop>"), getattr(inst, "prop", "<no prop>"))
    return ("ok", tuple(state), inst.pub(), isinstance(inst, cls), helpers)


def run_class(shape_i: int, sub_i: int) -> Tuple[bool, bool]:
    shape_i, sub_i = conc(shape_i, 0, len(CLASS_SHAPES) - 1), conc(sub_i, 0, len(SUB_SHAPES) - 1)
    shape, sub = CLASS_SHAPES[shape_i], SUB_SHAPES[sub_i]
    with untraced():
        if shape in ("namedtuple", "dataclass", "own_new", "plain_noinit", "dbc_noinit", "factory_new",
                     "dbc_diamond_new") and sub == "sub_init_super":
            return True, False  # base.__init__() without arguments is not meaningful for these shapes
        log = []  # type: List[Any]
        _, bare_cls, args = _make_class(shape, sub, False, [])
        want = _use(bare_cls, args)
        try:
            _, deco_cls, args2 = _make_class(shape, sub, True, log)
        except AssertionError:
            return False, False
        got = fresh(_use, deco_cls, args2)
        ok = got == want
        # ... and the invariant is really in force on the decorated class (a factory __new__ never makes an instance)
        witness = want[0] == "ok" and "inv" in log
        if want[0] == "ok" and "inv" not in log and shape != "factory_new":
            ok = False
    note(("class", shape, sub, want[0], got[0]), witness)
    return ok, witness


def run_abstract(via_dbc: bool, member: int, sub_overrides: bool) -> Tuple[bool, bool]:
    """A class with an invariant and an abstract method / property: abstractness is preserved (flag, __abstractmethods__
    of subclasses, instantiability of an incomplete subclass)."""
    via_dbc = True if via_dbc else False
    member = conc(member, 0, 1)
    sub_overrides = True if sub_overrides else False
    with untraced():
        def make(decorate: bool) -> Tuple[Any, ...]:
            bases = (icontract.DBC,) if (via_dbc and decorate) else (abc.ABC,)
            meta = type(bases[0])

            def area(self: Any) -> Any:
                raise NotImplementedError
            ns = {}  # type: Dict[str, Any]
            if member == 0:
                ns["area"] = abc.abstractmethod(area)
            else:
                ns["area"] = property(abc.abstractmethod(area))
            base = meta("Shape", bases, ns)
            if decorate:
                base = icontract.invariant(lambda self: True)(base)
            sub_ns = {}  # type: Dict[str, Any]
            if sub_overrides:
                sub_ns["area"] = (lambda self: 1) if member == 0 else property(lambda self: 1)
            sub = meta("Partial", (base,), sub_ns)
            flag = getattr(base.__dict__["area"] if member == 1 else base.area, "__isabstractmethod__", False)
            try:
                sub()
                inst = "instantiable"
            except TypeError:
                inst = "abstract"
            return (bool(flag), inspect.isabstract(sub), sorted(sub.__abstractmethods__), inst)
        want, got = make(False), make(True)
        ok = want == got
    note(("abstract", via_dbc, member, sub_overrides, got), True)
    return ok, True


COLOUR_FOREIGN = ["sync_pass_through_over_async_def", "async_to_sync_over_async_def", "sync_to_async_over_def",
                  "async_pass_through_over_async_def"]


def run_colour(foreign_i: int, deco_i: int, x: int) -> Tuple[bool, bool]:
    """A contract decorator on top of a foreign functools.wraps decorator that changes (or hides) the colour of what it wraps:
    the contracted callable is a coroutine function exactly if the callable it was applied to is one, and a call gives the
    same thing (a value, or a coroutine resulting in that value) as the bare twin."""
    import asyncio
    foreign_i, deco_i = conc(foreign_i, 0, len(COLOUR_FOREIGN) - 1), conc(deco_i, 0, 1)
    kind = COLOUR_FOREIGN[foreign_i]
    log = []  # type: List[Any]

    def make() -> Any:
        if kind == "sync_to_async_over_def":
            def target(v: Any) -> Any:
                log.append("body")
                return ("res", v)
        else:
            async def target(v: Any) -> Any:  # type: ignore
                log.append("body")
                return ("res", v)
        if kind == "sync_pass_through_over_async_def":
            @functools.wraps(target)
            def foreign(*a: Any, **k: Any) -> Any:
                return target(*a, **k)
        elif kind == "async_to_sync_over_async_def":
            @functools.wraps(target)
            def foreign(*a: Any, **k: Any) -> Any:  # type: ignore
                return asyncio.run(target(*a, **k))
        elif kind == "sync_to_async_over_def":
            @functools.wraps(target)
            async def foreign(*a: Any, **k: Any) -> Any:  # type: ignore
                return target(*a, **k)
        else:
            @functools.wraps(target)
            async def foreign(*a: Any, **k: Any) -> Any:  # type: ignore
                return await target(*a, **k)
        return foreign

    def use(fn: Any) -> Tuple[Any, ...]:
        del log[:]
        r = fn(x)
        during_call = list(log)
        is_coro = inspect.iscoroutine(r)
        if is_coro:
            r = drive(r)
        return (inspect.iscoroutinefunction(fn), is_coro, tuple(during_call), r)
    with untraced():
        bare = make()
        twin = make()
        if deco_i == 0:
            contracted = icontract.require(lambda v: True)(twin)
        else:
            contracted = icontract.ensure(lambda v: True)(twin)  # (does not look at the result)
    x = conc(x, -3, 3)
    with untraced():  # (a real event loop is started by one of the foreign decorators)
        want = fresh(use, bare)
        got = fresh(use, contracted)
    note(("colour", kind, deco_i, want[0], got[0]), True)
    return want == got, True


SALL = ["flavour", "d0", "d1", "d2", "d3", "d4", "d5", "bo", "t0", "t1", "t2", "t3", "t4", "t5", "x", "fd"]


def harnesses(tier: str) -> List[H]:
    out = []  # type: List[H]
    depth = 4 if tier == "quick" else 5
    for flavour, fname in enumerate(["def", "async_def", "abstractmethod"]):
        for d0 in range(5):
            params = [I("d%d" % i, 0, 4) for i in range(1, depth)] + [I("bo", 0, 2)] + \
                     [B("t%d" % i) for i in range(depth)] + [I("x", -4, 12)]
            defaults = {"flavour": flavour, "d0": d0, "fd": True}  # type: Dict[str, Any]
            if flavour != 2:
                # (a foreign decorator that drops __dict__ also drops __isabstractmethod__ - not the library's doing)
                params += [B("fd")]
            for i in range(depth, 6):
                defaults["d%d" % i] = 0
                defaults["t%d" % i] = True
            if tier == "quick" and flavour == 2 and d0 not in (1, 4):
                continue
            out.append(H("stack_{}_{}".format(fname, SYM[d0]), bind(run_stack, (), SALL, defaults, [p.name for p in params]),
                         params, tiers=(tier,), timeout=900 if tier == "quick" else 5400,
                         family="{}: every sequence of {} decorators from {} (innermost: {}); the foreign functools.wraps "
                                "decorators copy __dict__ (default) or not (updated=()); truth of every contract and 3 "
                                "body outcomes symbolic; metadata, signature, __wrapped__ chain and single-checker checked "
                                "once per sequence".format(fname, depth, SYM, SYM[d0]), family_size=2 * 5 ** (depth - 1)))
    CL = ["foreign_i", "deco_i", "x"]
    out.append(H("colour_changing_foreign_decorator", bind(run_colour, (), CL, {}, CL),
                 [I("foreign_i", 0, len(COLOUR_FOREIGN) - 1), I("deco_i", 0, 1), I("x", -3, 3)], tiers=(tier,), timeout=200,
                 family="require / ensure on top of a foreign functools.wraps decorator from {}; compared with the twin without the "
                        "contract: coroutine-ness, what a call returns, when the body runs".format(COLOUR_FOREIGN),
                 family_size=2 * len(COLOUR_FOREIGN)))
    AP = ["via_dbc", "member", "sub_overrides"]
    out.append(H("abstract_members", bind(run_abstract, (), AP, {}, AP), [B("via_dbc"), I("member", 0, 1), B("sub_overrides")],
                 tiers=(tier,), timeout=200,
                 family="class (ABC or DBC) with an invariant and an abstract method / abstract property; subclass overriding "
                        "it or not; compared with the undecorated twin", family_size=8))
    params = [I("shape_i", 0, len(CLASS_SHAPES) - 1), I("sub_i", 0, len(SUB_SHAPES) - 1)]
    out.append(H("classes", bind(run_class, (), ["shape_i", "sub_i"], {}, ["shape_i", "sub_i"]), params, tiers=(tier,),
                 timeout=300,
                 family="class shapes {} x subclass shapes {}: construction and use with the same arguments as the "
                        "undecorated twin; invariant(...)(cls) is cls".format(CLASS_SHAPES, SUB_SHAPES),
                 family_size=len(CLASS_SHAPES) * len(SUB_SHAPES)))
    return out
