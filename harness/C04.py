"""C04 - inherited contracts combine per Liskov: preconditions OR-ed, postconditions and invariants AND-ed."""
import functools
from typing import Any, Dict, FrozenSet, List, Optional, Tuple

import icontract

from vfw.build import mkfn
from vfw.hlib import Tag, conc, fresh, note, untraced
from vfw.hspec import B, H, I, bind

#: hierarchy shapes: name -> list of (class name, bases)
SHAPES = {
    "chain3": [("A", ()), ("B", ("A",)), ("C", ("B",))],
    "two_bases": [("P", ()), ("Q", ()), ("R", ("P", "Q"))],
    "diamond": [("A", ()), ("B", ("A",)), ("C", ("A",)), ("D", ("B", "C"))],
    "chain4": [("A", ()), ("B", ("A",)), ("C", ("B",)), ("D", ("C",))],
    "two_bases_deep": [("P0", ()), ("P", ("P0",)), ("Q", ()), ("R", ("P", "Q"))],
}
SHAPE_NAMES = list(SHAPES)
#: per-class option: (defines m, declares pre, declares post)
OPTS = [(False, False, False), (True, False, False), (True, True, False), (True, False, True), (True, True, True)]
KINDS = ["method", "static", "class", "prop_get", "prop_set"]
ACCEPT_ALL = "ACCEPT_ALL"


def _foreign(fn: Any) -> Any:
    @functools.wraps(fn)
    def traced(*args: Any, **kwargs: Any) -> Any:
        return fn(*args, **kwargs)
    return traced


class Holder:
    def __init__(self) -> None:
        self.tv = None  # type: Any
        self.log = []  # type: List[Tuple[Any, ...]]
        self.setup = True


class World:
    def __init__(self, shape: str, kind: str, opts: Tuple[int, ...], invs: Tuple[bool, ...], via: int,
                 inv_all: bool = False, fg: bool = False) -> None:
        self.h = Holder()
        self.classes = {}  # type: Dict[str, type]
        self.creation_error = {}  # type: Dict[str, BaseException]
        w = self
        cparams = ("self",) if kind in ("prop_get",) else ("x",)

        def cond(role: str, cname: str):  # type: ignore
            def impl(kw: Dict[str, Any]) -> Any:
                if role == "inv" and w.h.setup:
                    return True
                w.h.log.append((role, cname))
                return w.h.tv(role, cname)
            params = ("self",) if role == "inv" else (cparams + (("result",) if role == "post" else ()))
            return mkfn(params, impl, name="{}_{}".format(role, cname))

        def err(role: str, cname: str):  # type: ignore
            def e() -> Exception:
                return Tag((role, cname))
            return e

        for k, (cname, bases) in enumerate(SHAPES[shape]):
            defines, has_pre, has_post = OPTS[opts[k]]
            if any(b not in self.classes for b in bases):
                continue  # a base could not be created
            ns = {}  # type: Dict[str, Any]
            if defines:
                def body_impl(kw: Dict[str, Any], cname: str = cname) -> Any:
                    w.h.log.append(("body", cname))
                    return cname
                bparams = {"method": ("self", "x"), "static": ("x",), "class": ("cls", "x"), "prop_get": ("self",),
                           "prop_set": ("self", "x")}[kind]
                fn = mkfn(bparams, body_impl, name="m")
                if has_post:
                    fn = icontract.ensure(cond("post", cname), error=err("post", cname))(fn)
                if has_pre:
                    fn = icontract.require(cond("pre", cname), error=err("pre", cname))(fn)
                if fg:
                    # a third-party functools.wraps decorator on top of the member's contract stack
                    fn = _foreign(fn)
                if kind == "static":
                    ns["m"] = staticmethod(fn)
                elif kind == "class":
                    ns["m"] = classmethod(fn)
                elif kind == "prop_get":
                    ns["m"] = property(fget=fn)
                elif kind == "prop_set":
                    ns["m"] = property(fget=lambda self: None, fset=fn)
                else:
                    ns["m"] = fn
            base_objs = tuple(self.classes[b] for b in bases) or (icontract.DBC,)
            try:
                if via == 0:
                    cls = icontract.DBCMeta(cname, base_objs, ns)
                else:
                    g = {"__bases__": base_objs, "__ns__": ns}  # type: Dict[str, Any]
                    src = "class {}({}):\n    locals().update(__ns__)\n".format(
                        cname, ", ".join("__bases__[{}]".format(i) for i in range(len(base_objs))))
                    exec(src, g)
                    cls = g[cname]
                if invs[k]:
                    cls = icontract.invariant(
                        cond("inv", cname), error=err("inv", cname),
                        check_on=(icontract.InvariantCheckEvent.ALL if inv_all else icontract.InvariantCheckEvent.CALL))(cls)
            except (TypeError, ValueError) as ex:
                self.creation_error[cname] = ex
                continue
            self.classes[cname] = cls


_CACHE = {}  # type: Dict[Tuple[Any, ...], World]


# ---------------------------------------------------------------------------------------------
# reference semantics (sets of groups; written from the property statement)
# ---------------------------------------------------------------------------------------------
def reference(shape: str, opts: Tuple[int, ...], invs: Tuple[bool, ...]) -> Dict[str, Any]:
    """For every class: ("error",) | dict(pre=ACCEPT_ALL|frozenset of groups, post=frozenset, inv=frozenset, provider)."""
    spec = SHAPES[shape]
    info = {}  # type: Dict[str, Any]
    mro = {}  # type: Dict[str, List[str]]
    for k, (cname, bases) in enumerate(spec):
        if any(info.get(b, ("error",)) == ("error",) for b in bases):
            info[cname] = ("error",)
            continue
        # linearisation sufficient for these shapes: own, then bases left to right (C3 for the diamond)
        if shape == "diamond" and cname == "D":
            mro[cname] = ["D", "B", "C", "A"]
        else:
            m = [cname]
            for b in bases:
                for c in mro[b]:
                    if c not in m:
                        m.append(c)
            mro[cname] = m
        defines, has_pre, has_post = OPTS[opts[k]]
        inv = frozenset(c for c in mro[cname] if invs[[n for n, _ in spec].index(c)])

        def provider(start: str) -> Optional[str]:
            for c in mro[start]:
                if OPTS[opts[[n for n, _ in spec].index(c)]][0]:
                    return c
            return None

        if not defines:
            info[cname] = {"defines": False, "inv": inv, "provider": provider(cname)}
            continue
        provs = [p for p in (provider(b) for b in bases) if p is not None]
        own = frozenset([frozenset([("pre", cname)])]) if has_pre else frozenset()
        if not provs:
            pre = own if has_pre else ACCEPT_ALL  # type: Any
        else:
            effs = [info[p]["pre"] for p in provs]
            if any(e == ACCEPT_ALL for e in effs):
                if has_pre and all(e == ACCEPT_ALL for e in effs):
                    info[cname] = ("error",)
                    continue
                pre = ACCEPT_ALL
            else:
                pre = frozenset().union(*effs) | own
        post = frozenset().union(*[info[p]["post"] for p in provs]) | (frozenset([("post", cname)]) if has_post else frozenset())
        info[cname] = {"defines": True, "pre": pre, "post": post, "inv": inv, "provider": cname}
    return info


def run_dag(shape_i: int, kind_i: int, via: int, inv_all: bool, o0: int, o1: int, o2: int, o3: int, i0: bool, i1: bool, i2: bool, i3: bool,
            a0: bool, a1: bool, a2: bool, a3: bool, q0: bool, q1: bool, q2: bool, q3: bool,
            v0: bool, v1: bool, v2: bool, v3: bool, fg: bool = False) -> Tuple[bool, bool]:
    shape_i, kind_i, via = conc(shape_i, 0, len(SHAPE_NAMES) - 1), conc(kind_i, 0, len(KINDS) - 1), conc(via, 0, 1)
    shape, kind = SHAPE_NAMES[shape_i], KINDS[kind_i]
    spec = SHAPES[shape]
    n = len(spec)
    opts = tuple(conc(o, 0, len(OPTS) - 1) for o in (o0, o1, o2, o3)[:n])
    invs = tuple((True if b else False) for b in (i0, i1, i2, i3)[:n])
    if kind in ("static", "class"):
        pass
    inv_all = True if inv_all else False  # the invariants are declared with check_on=ALL instead of the default CALL
    fg = True if fg else False  # every defined member carries a foreign functools.wraps decorator above its contracts
    key = (shape, kind, opts, invs, via, inv_all, fg)
    with untraced():
        w = _CACHE.get(key)
        if w is None:
            w = World(shape, kind, opts, invs, via, inv_all, fg)
            _CACHE[key] = w
        w.h = Holder()
        ref = reference(shape, opts, invs)
    names = [c for c, _ in spec]
    pre_t = dict(zip(names, (a0, a1, a2, a3)))
    post_t = dict(zip(names, (q0, q1, q2, q3)))
    inv_t = dict(zip(names, (v0, v1, v2, v3)))

    def tv(role: str, cname: str) -> Any:
        return {"pre": pre_t, "post": post_t, "inv": inv_t}[role][cname]

    w.h.tv = tv
    ok = True
    witness = False
    trace = []
    for cname in names:
        r = ref[cname]
        if r == ("error",):
            # weakening without base preconditions (or a base that could not be created): rejected at creation
            if cname in w.classes:
                ok = False
            elif cname in w.creation_error and not isinstance(w.creation_error[cname], TypeError):
                ok = False
            trace.append((cname, "creation-error"))
            witness = True
            continue
        if cname not in w.classes:
            ok = False
            continue
        prov = r["provider"]
        if prov is None:
            continue  # the class has no member m at all
        eff = ref[prov]
        cls = w.classes[cname]
        w.h.setup = True
        inst = cls()
        w.h.setup = False
        del w.h.log[:]

        def call() -> Any:
            if kind == "method":
                return inst.m(1)
            if kind == "static":
                return inst.m(1)
            if kind == "class":
                return cls.m(1)
            if kind == "prop_get":
                return inst.m
            inst.m = 1
            return None

        try:
            fresh(call)
            got = ("ret",)  # type: Tuple[Any, ...]
        except Tag as err:
            got = ("violation",) + tuple(err.label)
        # reference verdict
        around = kind in ("method", "prop_get", "prop_set")
        inv_ok = all(tv("inv", c) for c in sorted(r["inv"])) if around else True
        pre_ok = eff["pre"] == ACCEPT_ALL or any(all(tv(*c) for c in sorted(g)) for g in sorted(eff["pre"], key=sorted))
        post_ok = all(tv(*c) for c in sorted(eff["post"]))
        if not inv_ok:
            want = "inv"
        elif not pre_ok:
            want = "pre"
        elif not post_ok:
            want = "post"
        else:
            want = "ret"
        if want == "ret":
            if got != ("ret",):
                ok = False
        else:
            if got[0] != "violation" or got[1] != want:
                ok = False
            elif tv(got[1], got[2]):
                ok = False  # the error of a contract that holds
            elif want == "pre" and not any(("pre", got[2]) in g for g in eff["pre"]):
                ok = False
            elif want == "post" and ("post", got[2]) not in eff["post"]:
                ok = False
            elif want == "inv" and got[2] not in r["inv"]:
                ok = False
            witness = True
        if want in ("ret", "post") and ("body", prov) not in w.h.log:
            ok = False
        if want in ("inv", "pre") and any(e[0] == "body" for e in w.h.log):
            ok = False
        trace.append((cname, want))
    note((shape, kind, opts, invs, via, inv_all, tuple(trace)), witness)
    return ok, witness


ALL = ["shape_i", "kind_i", "via", "inv_all", "o0", "o1", "o2", "o3", "i0", "i1", "i2", "i3", "a0", "a1", "a2", "a3",
       "q0", "q1", "q2", "q3", "v0", "v1", "v2", "v3", "fg"]


# ---------------------------------------------------------------------------------------------
# constructors: contracts not inherited when overridden, kept when not overridden
# ---------------------------------------------------------------------------------------------
def run_ctor(which: int, sub_defines: bool, tpre: bool, tpost: bool) -> Tuple[bool, bool]:
    which = conc(which, 0, 1)
    sub_defines = True if sub_defines else False
    name = "__init__" if which == 0 else "__new__"
    key = ("ctor", name, sub_defines)
    with untraced():
        w = _CACHE.get(key)
        if w is None:
            w = World.__new__(World)
            w.h = Holder()
            hw = w

            def cond(role: str):  # type: ignore
                def c(x: Any) -> Any:
                    hw.h.log.append((role,))
                    return hw.h.tv(role, "A")
                return c

            if which == 0:
                def base_ctor(self: Any, x: Any) -> None:
                    hw.h.log.append(("body", "A"))

                def sub_ctor(self: Any, x: Any) -> None:
                    hw.h.log.append(("body", "B"))
            else:
                def base_ctor(cls: Any, x: Any) -> Any:  # type: ignore
                    hw.h.log.append(("body", "A"))
                    return object.__new__(cls)

                def sub_ctor(cls: Any, x: Any) -> Any:  # type: ignore
                    hw.h.log.append(("body", "B"))
                    return object.__new__(cls)
            base_ctor.__name__ = sub_ctor.__name__ = name
            f = icontract.ensure(lambda x: hw.h.log.append(("post",)) or hw.h.tv("post", "A"), error=lambda: Tag(("post", "A")))(base_ctor)
            f = icontract.require(lambda x: hw.h.log.append(("pre",)) or hw.h.tv("pre", "A"), error=lambda: Tag(("pre", "A")))(f)
            A = icontract.DBCMeta("A", (icontract.DBC,), {name: f})
            Bc = icontract.DBCMeta("B", (A,), {name: sub_ctor} if sub_defines else {})
            w.classes = {"A": A, "B": Bc}
            _CACHE[key] = w
        w.h = Holder()
    w.h.tv = lambda role, c: {"pre": tpre, "post": tpost}[role]
    ok = True
    try:
        fresh(w.classes["B"], 1)
        got = "ret"
    except Tag as err:
        got = err.label[0]
    if sub_defines:
        # the subclass's own constructor carries no contracts: the base's are not inherited
        if got != "ret" or w.h.log != [("body", "B")]:
            ok = False
        want = "ret"
    else:
        want = "pre" if not tpre else ("post" if not tpost else "ret")
        if got != want:
            ok = False
    witness = want != "ret" or sub_defines
    note(("ctor", name, sub_defines, got), witness)
    return ok, witness


def run_diamond_snapshot(kind_i: int, b_over: bool, c_over: bool, d_over: bool, d_post: bool, ta: bool, td: bool) -> Tuple[bool, bool]:
    """A.m has a postcondition and a snapshot; B(A), C(A) and D(B, C) override m or not: the classes can be created, the
    snapshot is captured once and every class's verdict is the conjunction of the postconditions on its chain."""
    kind_i = conc(kind_i, 0, 2)
    kind = ["method", "static", "class"][kind_i]
    b_over, c_over, d_over, d_post = (True if v else False for v in (b_over, c_over, d_over, d_post))
    key = ("dsnap", kind, b_over, c_over, d_over, d_post)
    with untraced():
        w = _CACHE.get(key)
        if w is None:
            w = World.__new__(World)
            w.h = Holder()
            hw = w

            def mk(cname: str, post: bool, snap: bool) -> Any:
                def body_impl(kw: Dict[str, Any]) -> Any:
                    hw.h.log.append(("body", cname))
                    return cname
                params = {"method": ("self", "x"), "static": ("x",), "class": ("cls", "x")}[kind]
                fn = mkfn(params, body_impl, name="m")
                if post:
                    def post_impl(kw: Dict[str, Any]) -> Any:
                        hw.h.log.append(("post", cname, getattr(kw["OLD"], "s", "<no OLD.s>")))
                        return hw.h.tv("post", cname)
                    fn = icontract.ensure(mkfn(("x", "OLD"), post_impl, name="post_" + cname),
                                          error=lambda: Tag(("post", cname)))(fn)
                if snap:
                    def cap_impl(kw: Dict[str, Any]) -> Any:
                        hw.h.log.append(("snap", cname))
                        return ("old", kw["x"])
                    fn = icontract.snapshot(mkfn(("x",), cap_impl, name="cap"), name="s")(fn)
                if kind == "static":
                    return staticmethod(fn)
                if kind == "class":
                    return classmethod(fn)
                return fn

            w.classes = {}
            w.creation_error = {}
            try:
                A = icontract.DBCMeta("A", (icontract.DBC,), {"m": mk("A", True, True)})
                Bc = icontract.DBCMeta("B", (A,), {"m": mk("B", False, False)} if b_over else {})
                Cc = icontract.DBCMeta("C", (A,), {"m": mk("C", False, False)} if c_over else {})
                Dc = icontract.DBCMeta("D", (Bc, Cc), {"m": mk("D", d_post, False)} if d_over else {})
                w.classes = {"A": A, "B": Bc, "C": Cc, "D": Dc}
            except (TypeError, ValueError) as err:
                w.creation_error["?"] = err
            _CACHE[key] = w
        w.h = Holder()
    w.h.setup = False
    if w.creation_error:
        return False, False  # a diamond over one inherited snapshot is legitimate and must be accepted
    truth = {"A": ta, "D": td}
    w.h.tv = lambda role, c: truth[c]
    ok = True
    witness = False
    for cname in ("A", "B", "C", "D"):
        cls = w.classes[cname]
        del w.h.log[:]
        try:
            fresh(lambda: cls.m(7) if kind != "method" else cls().m(7))
            got = "ret"
        except Tag as err:
            got = err.label[1]
        declared_d_post = cname == "D" and d_over and d_post
        want = "A" if not ta else ("D" if declared_d_post and not td else "ret")
        # A's postcondition is inherited by everybody; it may legitimately be listed once per path of the diamond
        if got != want and not (want == "D" and got == "A"):
            ok = False
        snaps = [e for e in w.h.log if e[0] == "snap"]
        if len(snaps) != 1:
            ok = False
        for e in w.h.log:
            if e[0] == "post" and e[2] != ("old", 7):
                ok = False
        if got != "ret":
            witness = True
    note(("diamond_snapshot", kind, b_over, c_over, d_over, d_post), witness)
    return ok, witness


NONPY_CASES = ["require_on_method_of_builtin_base", "require_on_object_slot_wrapper", "builtin_base_accepts_all",
               "base_member_under_lru_cache"]


def run_nonpython_provider(case_i: int, tpre: bool, tpost: bool) -> Tuple[bool, bool]:
    """An ancestor provides the member as something that is not a plain Python function: a C-implemented method of a built-in
    base, a slot wrapper of ``object``, or a Python method under a C-implemented decorator (functools.lru_cache) on top of its
    contracts.  It still counts as an ancestor providing the member."""
    import functools as ft
    case_i = conc(case_i, 0, len(NONPY_CASES) - 1)
    case = NONPY_CASES[case_i]
    truth = {"pre": tpre, "post": tpost}
    with untraced():
        def pre(x: Any) -> Any:
            return truth["pre"]

        def post(result: Any) -> Any:
            return truth["post"]
        if case == "require_on_method_of_builtin_base":
            # list.append has no precondition at all: adding one must be rejected when the class is created
            def append(self: Any, x: Any) -> None:
                list.append(self, x)
            try:
                icontract.DBCMeta("Stack", (icontract.DBC, list), {
                    "append": icontract.require(pre, error=lambda: Tag("pre"))(append)})
                status = "accepted"
            except TypeError:
                status = "TypeError"
            note(("nonpy", case, status), True)
            return status == "TypeError", True
        if case == "require_on_object_slot_wrapper":
            def __eq__(self: Any, x: Any) -> bool:
                return True
            try:
                icontract.DBCMeta("Money", (icontract.DBC,), {
                    "__eq__": icontract.require(pre, error=lambda: Tag("pre"))(__eq__), "__hash__": None})
                status = "accepted"
            except TypeError:
                status = "TypeError"
            note(("nonpy", case, status), True)
            return status == "TypeError", True
        if case == "builtin_base_accepts_all":
            def update(self: Any, x: Any) -> Any:
                return "registry"
            registry = icontract.DBCMeta("Registry", (icontract.DBC,), {
                "update": icontract.require(pre, error=lambda: Tag("pre"))(update)})

            def update2(self: Any, x: Any) -> Any:
                return "both"
            both = icontract.DBCMeta("DictRegistry", (registry, dict), {"update": update2})
            inst = both()
        else:
            def compute(self: Any, x: Any) -> Any:
                return "base"
            f = icontract.ensure(post, error=lambda: Tag("post"))(compute)
            f = icontract.require(pre, error=lambda: Tag("pre"))(f)
            base = icontract.DBCMeta("Base", (icontract.DBC,), {"compute": ft.lru_cache(maxsize=None)(f), "__hash__": lambda self: 1})

            def compute2(self: Any, x: Any) -> Any:
                return "derived"
            derived = icontract.DBCMeta("Derived", (base,), {"compute": compute2})
            inst = derived()
    try:
        got = fresh(inst.update, 1) if case == "builtin_base_accepts_all" else fresh(inst.compute, 1)
    except Tag as err:
        got = "tag:" + err.label
    if case == "builtin_base_accepts_all":
        want = "both"  # dict.update accepts every call, so does the override
    else:
        want = "tag:pre" if not tpre else ("tag:post" if not tpost else "derived")
    note(("nonpy", case, got), got != want or not (tpre and tpost))
    return got == want, not (tpre and tpost)


def harnesses(tier: str) -> List[H]:
    out = []  # type: List[H]
    NP = ["case_i", "tpre", "tpost"]
    out.append(H("nonpython_provider", bind(run_nonpython_provider, (), NP, {}, NP),
                 [I("case_i", 0, len(NONPY_CASES) - 1), B("tpre"), B("tpost")], tiers=(tier,), timeout=200,
                 family="ancestors providing the member as a non-Python callable: {}".format(NONPY_CASES),
                 family_size=len(NONPY_CASES)))
    DS = ["kind_i", "b_over", "c_over", "d_over", "d_post", "ta", "td"]
    dparams = [I("kind_i", 0, 2), B("b_over"), B("c_over"), B("d_over"), B("d_post"), B("ta"), B("td")]
    out.append(H("diamond_snapshot", bind(run_diamond_snapshot, (), DS, {}, DS), dparams, tiers=(tier,), timeout=600,
                 family="diamond A <- B, C <- D; A.m (method / static / class method) has a postcondition and a snapshot; B, C, D "
                        "override m or not, D with or without an own postcondition reading OLD", family_size=3 * 16))
    truth = lambda n: [B("a%d" % i) for i in range(n)] + [B("q%d" % i) for i in range(n)]  # noqa: E731
    if tier == "quick":
        cfgs = [("chain3", "method", 0), ("two_bases", "method", 0), ("diamond", "method", 0),
                ("two_bases", "prop_get", 0), ("two_bases", "static", 1), ("chain3", "class", 1)]
    else:
        # every member kind on the 3-class hierarchies; on the 4-class ones methods only (+ the quick configurations)
        cfgs = [(s, k, 0) for s in SHAPE_NAMES for k in KINDS if len(SHAPES[s]) == 3 or k == "method"]
        cfgs += [("two_bases", "static", 1), ("chain3", "class", 1), ("chain3", "prop_set", 1)]
    for (shape, kind, via) in cfgs:
        n = len(SHAPES[shape])
        si, ki = SHAPE_NAMES.index(shape), KINDS.index(kind)
        # (split by the option of the first class so that the processes run in parallel)
        split = range(len(OPTS)) if (n == 4 or (kind == "method" and shape == "two_bases")) else [None]
        for o0 in split:
            defaults = {"shape_i": si, "kind_i": ki, "via": via, "fg": False}  # type: Dict[str, Any]
            for i in range(4):
                defaults.update({"o%d" % i: 0, "i%d" % i: False, "a%d" % i: True, "q%d" % i: True, "v%d" % i: True})
            params = []
            for i in range(n):
                if i == 0 and o0 is not None:
                    defaults["o0"] = o0
                elif n == 4 and i in (1, 3) and (tier == "quick" or shape != "diamond"):
                    params.append(I("o%d" % i, 0, 2))
                else:
                    params.append(I("o%d" % i, 0, len(OPTS) - 1))
            inv_classes = [0]
            params += [B("i%d" % i) for i in inv_classes] + [B("inv_all")]
            with_fg = kind == "method" and (shape == "two_bases" or (tier == "thorough" and n == 3))
            if with_fg:
                params += [B("fg")]
            params += truth(n) + [B("v%d" % i) for i in inv_classes]
            name = "dag_{}_{}_via{}{}".format(shape, kind, via, "" if o0 is None else "_o%d" % o0)
            out.append(H(name, bind(run_dag, (), ALL, defaults, [p.name for p in params]), params, tiers=(tier,),
                         timeout=900 if tier == "quick" else 3600,
                         family="hierarchy {} {}; member kind {}; classes created by {}; every class: does not define m / "
                                "defines it bare / +pre / +post / +pre+post{}; invariant on {}; a call on an instance of "
                                "EVERY class of the hierarchy is judged".format(
                                    shape, SHAPES[shape], kind, ["DBCMeta(name, bases, ns)", "an exec'd class statement"][via],
                                    ", with or without a foreign functools.wraps decorator above the contracts" if with_fg else "",
                                    "the root (check_on CALL or ALL)"),
                         family_size=len(OPTS) ** (n if o0 is None else n - 1) * 2 ** len(inv_classes)))
    out.append(H("ctor", bind(run_ctor, (), ["which", "sub_defines", "tpre", "tpost"], {},
                              ["which", "sub_defines", "tpre", "tpost"]),
                 [I("which", 0, 1), B("sub_defines"), B("tpre"), B("tpost")], tiers=(tier,), timeout=200,
                 family="__init__ / __new__ with pre+post on a DBC base; subclass overriding it or not", family_size=4))
    return out
