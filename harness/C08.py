"""C08 - OLD snapshots capture the pre-state once, after the preconditions and before the body."""
from typing import Any, Dict, List, Tuple

import icontract

from vfw.build import RT, get_built, invoke, identify
from vfw.hlib import Tag, conc, fresh, note, drive
from vfw.hspec import B, H, I, L, bind
from vfw.prog import Level, Prog, effective

MARK = 99


def _levels(kind: str, a0: int, b0: int, s0: int, d1: int, b1: int, s1: int) -> Tuple[Level, ...]:
    l0 = Level(True, pre=a0, post=b0, snaps=s0 if b0 else 0)
    if kind == "func" or d1 == 0:
        return (l0,)
    if d1 == 1:
        return (l0, Level(False))
    return (l0, Level(True, post=b1, snaps=s1 if b1 else 0))


def run_snap(kind: str, is_async: bool, a0: int, b0: int, s0: int, d1: int, b1: int, s1: int, act: int, po: int,
             tp: bool, q0: bool, q1: bool, q2: bool, xs: List[int]) -> Tuple[bool, bool]:
    po = conc(po, 0, 2)  # who asks for OLD: postconditions + error factories / error factories only / nobody
    a0, b0, s0, d1, b1, s1, act = conc(a0, 0, 1), conc(b0, 0, 2), conc(s0, 0, 2), conc(d1, 0, 2), conc(b1, 0, 1), conc(s1, 0, 1), conc(act, 0, 3)
    prog = Prog(kind=kind, is_async=is_async, levels=_levels(kind, a0, b0, s0, d1, b1, s1))
    eff = effective(prog)
    posts = [q0, q1, q2]
    post_off = {0: 0, 1: b0}

    def tv(role: str, lvl: int, i: int, when: Any) -> Any:
        if role == "pre":
            return tp
        if role == "post":
            return posts[post_off[lvl] + i]
        return True

    arg = list(xs)
    pre_copy = list(xs)  # the harness's own copy of the pre-state

    def capture(lvl: int, i: int, kw: Dict[str, Any]) -> Any:
        if i == 0:
            return list(kw["x"])
        return len(kw["x"])

    def body(kw: Dict[str, Any]) -> Any:
        if act == 1:
            kw["x"].append(MARK)
        elif act == 2:
            del kw["x"][:]
        elif act == 3:
            kw["x"] = [MARK]  # rebinding the local name only
        return None

    built = get_built(prog, "factory_kw", post_old=po)
    rt = RT(tv=tv, body=body, error_mode="factory_kw", capture=capture)
    built.rt = rt
    try:
        fresh(invoke, built, arg)
        raised = None
    except Tag as err:
        raised = err

    ok = True
    log = list(rt.log)
    pre_failed = bool(eff.groups) and not tp
    expect_capture = (not pre_failed) and bool(eff.posts) and bool(eff.snaps)
    # exactly once each / not at all
    for ref in eff.snaps:
        n = sum(1 for e in log if e == ("snap", ref[0], ref[1]))
        if n != (1 if expect_capture else 0):
            ok = False
    if any(e[0] == "snap" and (e[1], e[2]) not in eff.snaps for e in log):
        ok = False
    # after the last precondition, before the body
    snap_pos = [k for k, e in enumerate(log) if e[0] == "snap"]
    pre_pos = [k for k, e in enumerate(log) if e[0] == "pre"]
    body_pos = [k for k, e in enumerate(log) if e[0] == "body"]
    if snap_pos:
        if pre_pos and max(pre_pos) > min(snap_pos):
            ok = False
        if not body_pos or max(snap_pos) > body_pos[0]:
            ok = False
    # postconditions and error factories see the captured values whatever the body did
    saw_old = False
    for (label, kw) in list(rt.seen) + [((lab[0], lab[1], lab[2], None), kw) for (lab, kw) in rt.errseen]:
        if label[0] != "post":
            continue
        if "OLD" in kw:  # asked for by every postcondition/error factory declared where snapshots are in effect
            old = kw["OLD"]
            saw_old = True
            for (lvl, i) in eff.snaps:
                val = getattr(old, "s_{}_{}".format(lvl, i))
                want = pre_copy if i == 0 else len(pre_copy)
                if val != want:
                    ok = False
            # a name that was never captured -> explanatory AttributeError
            try:
                getattr(old, "nope")
                ok = False
            except AttributeError as err:
                if "nope" not in str(err):
                    ok = False
        if "x" in kw and kw["x"] is not arg:
            ok = False
    # the captures received the pre-state
    for (label, kw) in rt.seen:
        if label[0] == "snap" and kw.get("x") is not arg:
            ok = False
    witness = (saw_old and act in (1, 2)) or (expect_capture and po == 2)
    note((kind, is_async, a0, b0, s0, d1, b1, s1, act, po, tuple(log), raised is not None), witness)
    return ok, witness


# ---------------------------------------------------------------------------------------------
# misuse, rejected at definition time
# ---------------------------------------------------------------------------------------------
CALL_STYLES = ["positional", "keywords_in_order", "keywords_reversed", "positional_then_keyword", "default_for_last",
               "keywords_rotated"]


def run_multi_capture(style: int, is_async: bool, a: int, b: int) -> Tuple[bool, bool]:
    """A named snapshot whose capture takes several parameters, listed in another order than the function's, under every
    argument-passing style: each parameter of the capture is bound to the argument of that name."""
    style = conc(style, 0, len(CALL_STYLES) - 1)
    is_async = True if is_async else False
    seen = {}  # type: Dict[str, Any]

    def cap(dst: Any, n: Any, src: Any) -> Any:
        return ("src", src, "dst", dst, "n", n)

    def post(OLD: Any) -> Any:
        seen["old"] = OLD.all3
        return True
    if is_async:
        async def move(src: Any, dst: Any, n: Any = 7) -> Any:
            return None
    else:
        def move(src: Any, dst: Any, n: Any = 7) -> Any:  # type: ignore
            return None
    f = icontract.ensure(post, error=lambda: Tag("post"))(move)
    f = icontract.snapshot(cap, name="all3")(f)
    src, dst = [a], [b]
    call = {"positional": lambda: f(src, dst, 3), "keywords_in_order": lambda: f(src=src, dst=dst, n=3),
            "keywords_reversed": lambda: f(n=3, dst=dst, src=src), "positional_then_keyword": lambda: f(src, n=3, dst=dst),
            "default_for_last": lambda: f(dst=dst, src=src), "keywords_rotated": lambda: f(dst=dst, n=3, src=src)}[CALL_STYLES[style]]

    def run() -> Any:
        r = call()
        return drive(r) if is_async else r
    fresh(run)
    n = 7 if CALL_STYLES[style] == "default_for_last" else 3
    old = seen.get("old")
    ok = (old is not None and len(old) == 6 and old[1] is src and old[3] is dst and old[5] == n)
    note(("multi_capture", CALL_STYLES[style], is_async), True)
    return ok, True


N_MISUSE = 12


def run_misuse(m: int, k: int) -> Tuple[bool, bool]:
    """m = misuse kind, k = callable kind (0 function, 1 method of a DBC class, 2 async function)."""
    m, k = conc(m, 0, N_MISUSE - 1), conc(k, 0, 2)
    from vfw.hlib import untraced

    with untraced():
        ok, witness = _misuse(m, k)
    note(("misuse", m, k, ok), witness)
    return ok, witness


def _mkf(k: int) -> Any:
    if k == 2:
        async def f(xs: List[int]) -> None:
            return None
        return f

    def g(xs: List[int]) -> None:
        return None
    return g


def _misuse(m: int, k: int) -> Tuple[bool, bool]:
    post = icontract.ensure(lambda result: True)
    try:
        if m == 0:  # unnamed capture without parameters
            icontract.snapshot(lambda: 1)
            return False, False
        if m == 1:  # unnamed capture with two parameters
            icontract.snapshot(lambda xs, ys: 1)
            return False, False
        if m == 2:  # snapshot on a bare function
            icontract.snapshot(lambda xs: xs[:])(_mkf(k))
            return False, False
        if m == 3:  # snapshot above a precondition only
            icontract.snapshot(lambda xs: xs[:])(icontract.require(lambda xs: True)(_mkf(k)))
            return False, False
        if m == 4:  # duplicate name on one function
            f = post(_mkf(k))
            f = icontract.snapshot(lambda xs: xs[:])(f)
            icontract.snapshot(lambda xs: len(xs), name="xs")(f)
            return False, False
        if m == 5:  # duplicate name across a hierarchy
            class A(icontract.DBC):
                @icontract.snapshot(lambda xs: xs[:], name="n")
                @icontract.ensure(lambda result: True)
                def m(self, xs: List[int]) -> None:
                    return None

            class Bad(A):
                @icontract.snapshot(lambda xs: len(xs), name="n")
                @icontract.ensure(lambda result: True)
                def m(self, xs: List[int]) -> None:
                    return None
            return False, False
        if m == 6:  # named captures with zero and with two parameters are fine
            f = post(_mkf(k))
            f = icontract.snapshot(lambda: 1, name="a")(f)
            f = icontract.snapshot(lambda xs, _ARGS: 1, name="b")(f)
            return len(f.__postcondition_snapshots__) == 2, False
        if m == 7:  # distinct names are fine, also across a hierarchy
            class A2(icontract.DBC):
                @icontract.snapshot(lambda xs: xs[:], name="n")
                @icontract.ensure(lambda result: True)
                def m(self, xs: List[int]) -> None:
                    return None

            class Good(A2):
                @icontract.snapshot(lambda xs: len(xs), name="k")
                @icontract.ensure(lambda OLD, xs: OLD.n == xs and OLD.k == len(xs))
                def m(self, xs: List[int]) -> None:
                    return None
            Good().m([1, 2])
            return True, False
        if m == 9:  # two bases contribute different snapshots with the same name to an overriding member
            class P1(icontract.DBC):
                @icontract.snapshot(lambda xs: xs[:], name="n")
                @icontract.ensure(lambda result: True)
                def m(self, xs: List[int]) -> None:
                    return None

            class P2(icontract.DBC):
                @icontract.snapshot(lambda xs: len(xs), name="n")
                @icontract.ensure(lambda result: True)
                def m(self, xs: List[int]) -> None:
                    return None

            class Both(P1, P2):
                def m(self, xs: List[int]) -> None:
                    return None
            return False, False
        if m == 10:  # unnamed capture with several parameters, all but one of them with a default value
            icontract.snapshot(lambda xs, n=2: xs[:n])
            return False, False
        if m == 11:  # unnamed capture whose parameters all have default values
            icontract.snapshot(lambda xs=(), n=2: xs[:n])
            return False, False
        if m == 8:  # reading a name that was never captured
            seen = []  # type: List[str]

            def cond(OLD: Any) -> bool:
                try:
                    OLD.missing
                except AttributeError as err:
                    seen.append(str(err))
                return True
            f = icontract.ensure(cond)(_mkf(k))
            f = icontract.snapshot(lambda xs: xs[:])(f)
            r = f([1])
            if k == 2:
                drive(r)
            return len(seen) == 1 and "missing" in seen[0], True
    except ValueError:
        return m in (0, 1, 2, 3, 4, 5, 9, 10, 11), True
    return False, False


ALL = ["a0", "b0", "s0", "d1", "b1", "s1", "act", "po", "tp", "q0", "q1", "q2", "xs"]


def harnesses(tier: str) -> List[H]:
    out = []  # type: List[H]
    cfgs = [("func", False), ("method", False), ("func", True)]
    if tier == "thorough":
        cfgs += [("method", True), ("static", False), ("class", False), ("prop_set", False), ("init", False)]
    for (kind, is_async) in cfgs:
        for d1 in ((0,) if kind == "func" else (0, 1, 2)):
            for po in (0, 1, 2):
                params = [I("a0", 0, 1), I("b0", 0, 2), I("s0", 0, 2 if d1 < 2 or tier == "thorough" else 1)]
                defaults = {"d1": d1, "b1": 0, "s1": 0, "po": po}
                if d1 == 2:
                    params += [I("b1", 0, 1), I("s1", 0, 1)]
                params += [I("act", 0, 3), B("tp"), B("q0"), B("q1"), B("q2"),
                           L("xs", 2 if tier == "quick" else 3, -3, 3)]
                name = "snap_{}{}{}_po{}".format(kind, "_async" if is_async else "", "" if kind == "func" else "_d%d" % d1, po)
                out.append(H(name, bind(run_snap, (kind, is_async), ALL, defaults, [p.name for p in params]), params,
                             tiers=(tier,), timeout=600,
                             family="kind={} async={}: own precondition 0..1, postconditions 0..2, snapshots (copy, len); "
                                    "subclass level {}; body leaves / appends / clears / rebinds its list argument; OLD asked "
                                    "for by {}".format(kind, is_async, ["absent", "not overriding",
                                                                       "overriding with post 0..1 + snapshot 0..1"][d1],
                                                       ["postconditions and error factories", "error factories only",
                                                        "nobody"][po]),
                             family_size=2 * 3 * 3 * (4 if d1 == 2 else 1) * 4))
    out.append(H("snap_misuse", bind(run_misuse, (), ["m", "k"], {}, ["m", "k"]),
                 [I("m", 0, N_MISUSE - 1), I("k", 0, 2)], tiers=(tier,), timeout=120,
                 family="definition-time misuse kinds x {function, DBC method, async function}", family_size=3 * N_MISUSE))
    MC = ["style", "is_async", "a", "b"]
    out.append(H("multi_parameter_capture", bind(run_multi_capture, (), MC, {}, MC),
                 [I("style", 0, len(CALL_STYLES) - 1), B("is_async"), I("a", -3, 3), I("b", -3, 3)], tiers=(tier,), timeout=200,
                 family="def / async def move(src, dst, n=7) with a named snapshot whose capture is lambda dst, n, src: ...; call "
                        "styles {}".format(CALL_STYLES), family_size=2 * len(CALL_STYLES)))
    return out
