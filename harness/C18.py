"""C18 - the introspection data tells integrators the truth."""
from typing import Any, Dict, List, Tuple

import icontract
import icontract._checkers
import icontract._metaclass

from vfw.build import RT, get_built, invoke, identify
from vfw.hlib import Tag, conc, fresh, note, untraced
from vfw.hspec import B, H, I, bind
from vfw.prog import INV_AROUND, Level, Prog, effective

RESULT = object()


def _levels(kind: str, a0: int, b0: int, s0: int, i0: int, d1: int, a1: int, b1: int, i1: int, fg: bool) -> Tuple[Level, ...]:
    inv0 = ("CALL",) * i0 if kind != "func" else ()
    last0 = kind == "func" or d1 == 0
    l0 = Level(True, pre=a0, post=b0, snaps=s0 if b0 else 0, inv=inv0, foreign=fg and last0)
    if last0:
        return (l0,)
    if d1 == 1:
        return (l0, Level(False, inv=("CALL",) * i1))
    return (l0, Level(True, pre=a1, post=b1, inv=("CALL",) * i1, foreign=fg))


def _member(built: Any) -> Any:
    kind = built.prog.kind
    if kind == "func":
        return built.func
    cls = built.classes[-1]
    if kind in ("method", "static", "class"):
        return getattr(cls, "m")
    prop = getattr(cls, "p")
    return {"prop_get": prop.fget, "prop_set": prop.fset, "prop_del": prop.fdel}[kind]


def run_intro(kind: str, a0: int, b0: int, s0: int, i0: int, d1: int, a1: int, b1: int, i1: int, fg: bool,
              p0: bool, p1: bool, p2: bool, p3: bool, q0: bool, q1: bool, q2: bool, v0: bool, v1: bool,
              w0: bool, w1: bool) -> Tuple[bool, bool]:
    a0, b0, s0, i0, d1, a1, b1, i1 = conc(a0, 0, 2), conc(b0, 0, 2), conc(s0, 0, 1), conc(i0, 0, 1), conc(d1, 0, 2), conc(a1, 0, 2), conc(b1, 0, 1), conc(i1, 0, 1)
    fg = True if fg else False  # a foreign functools.wraps decorator on top of the most derived contract stack
    prog = Prog(kind=kind, is_async=False, levels=_levels(kind, a0, b0, s0, i0, d1, a1, b1, i1, fg))
    eff = effective(prog)
    if eff.creation_error_at is not None:
        return True, False
    pres, posts = [p0, p1, p2, p3], [q0, q1, q2]
    pre_off, post_off, inv_off = {0: 0, 1: a0}, {0: 0, 1: b0}, {0: 0, 1: i0}
    ib, ia = [v0, v1], [w0, w1]

    def tv(role: str, lvl: int, i: int, when: Any) -> Any:
        if role == "pre":
            return pres[pre_off[lvl] + i]
        if role == "post":
            return posts[post_off[lvl] + i]
        if role == "inv":
            return (ib if when == "before" else ia)[inv_off[lvl] + i]
        return True

    built = get_built(prog, "factory")
    ok = True
    # ---- 1. the real call -----------------------------------------------------------------------
    rt = RT(tv=tv, body=lambda kw: RESULT, error_mode="factory")
    built.rt = rt
    try:
        fresh(invoke, built, 3)
        real = "ret"
    except Tag as err:
        real = identify(built, err)[0]  # "pre" | "post" | "inv"

    # ---- 2. the documented introspection interface ----------------------------------------------
    member = _member(built)
    with untraced():
        chain = list(icontract._checkers._walk_decorator_stack(member))
        carriers = [f for f in chain if hasattr(f, "__preconditions__") or hasattr(f, "__postconditions__")
                    or hasattr(f, "__postcondition_snapshots__")]
        checker = icontract._checkers.find_checker(func=member)
        declared = bool(eff.groups or eff.posts or eff.snaps) or any(
            lev.defines and (lev.pre or lev.post) for lev in prog.levels)
        if checker is None:
            structure_ok = not (eff.groups or eff.posts)
            groups_l, posts_l, snaps_l = [], [], []  # type: ignore
        else:
            # the one checker is the innermost carrier of the lists; outer wrappers created with functools.update_wrapper
            # (invariant checks, foreign decorators) merely carry copies of the attribute references, possibly stale
            # ones - they are not part of the documented interface
            structure_ok = carriers[-1] is checker
            groups_l = checker.__preconditions__
            posts_l = checker.__postconditions__
            snaps_l = checker.__postcondition_snapshots__
            # the lists contain exactly the effective contracts
            got_groups = [[built.names.get(c.condition.__name__) for c in g] for g in groups_l]
            want_groups = [[("pre", l, i) for (l, i) in g] for g in eff.groups]
            got_posts = [built.names.get(c.condition.__name__) for c in posts_l]
            want_posts = [("post", l, i) for (l, i) in eff.posts]
            got_snaps = [s.name for s in snaps_l]
            want_snaps = ["s_{}_{}".format(l, i) for (l, i) in eff.snaps]
            if got_groups != want_groups or got_posts != want_posts or got_snaps != want_snaps:
                structure_ok = False
        invs_l = list(getattr(built.classes[-1], "__invariants__", [])) if kind != "func" else []
        got_invs = [built.names.get(c.condition.__name__) for c in invs_l]
        if got_invs != [("inv", l, i) for (l, i) in eff.invs]:
            structure_ok = False
    if not structure_ok:
        ok = False

    # ---- 3. judge the same call by hand, the way the integrators do ------------------------------
    rt2 = RT(tv=tv, body=lambda kw: RESULT, error_mode="factory")
    built.rt = rt2
    rt2.phase = "setup"
    inst = built.classes[-1]() if kind != "func" else None
    rt2.begin()
    kwargs = {"x": 3}  # type: Dict[str, Any]
    if inst is not None:
        kwargs["self"] = inst

    def manual() -> str:
        around = kind in INV_AROUND
        if around:
            for inv in invs_l:
                if not inv.condition(self=inst):
                    return "inv"
        success = True
        for group in groups_l:
            success = True
            for contract in group:
                ckw = icontract._checkers.select_condition_kwargs(contract=contract, resolved_kwargs=kwargs)
                success = contract.condition(**ckw)
                if not success:
                    break
            if success:
                break
        if not success:
            return "pre"
        if posts_l and snaps_l:
            old_as_mapping = {}  # type: Dict[str, Any]
            for snap in snaps_l:
                skw = icontract._checkers.select_capture_kwargs(a_snapshot=snap, resolved_kwargs=kwargs)
                old_as_mapping[snap.name] = snap.capture(**skw)
            kwargs["OLD"] = icontract._checkers.Old(mapping=old_as_mapping)
        rt2.body_ran = True  # "simulate the call"
        kwargs["result"] = RESULT
        for contract in posts_l:
            ckw = icontract._checkers.select_condition_kwargs(contract=contract, resolved_kwargs=kwargs)
            if not contract.condition(**ckw):
                return "post"
        if around:
            for inv in invs_l:
                if not inv.condition(self=inst):
                    return "inv"
        return "ret"

    by_hand = manual()
    if by_hand != real:
        ok = False
    witness = real != "ret"
    note((kind, a0, b0, s0, i0, d1, a1, b1, i1, fg, real, by_hand), witness)
    return ok, witness


# ---------------------------------------------------------------------------------------------
# registration hook
# ---------------------------------------------------------------------------------------------
def run_hook(n: int, inv_mask: int, via: int) -> Tuple[bool, bool]:
    """Create a chain of n classes through the inheriting metaclass; every one is announced exactly once."""
    n, inv_mask, via = conc(n, 1, 4), conc(inv_mask, 0, 15), conc(via, 0, 3)
    with untraced():
        seen = []  # type: List[type]
        orig = icontract._metaclass._register_for_hypothesis
        icontract._metaclass._register_for_hypothesis = seen.append  # as icontract-hypothesis does
        try:
            created = []  # type: List[type]
            prev = icontract.DBC  # type: Any
            for k in range(n):
                ns = {"m": (lambda self: k)}  # type: Dict[str, Any]
                if via == 3:
                    # ``class K0(metaclass=icontract.DBCMeta)`` - no DBC base at the root of the chain
                    cls = icontract.DBCMeta("K%d" % k, (() if k == 0 else (prev,)), ns)
                elif via == 0:
                    cls = icontract.DBCMeta("K%d" % k, (prev,), ns)
                elif via == 1:
                    cls = type(prev)("K%d" % k, (prev,), ns)
                else:
                    import types as _t
                    cls = _t.new_class("K%d" % k, (prev,), exec_body=lambda d, ns=ns: d.update(ns))
                if inv_mask & (1 << k):
                    cls = icontract.invariant(lambda self: True)(cls)
                created.append(cls)
                prev = cls
        finally:
            icontract._metaclass._register_for_hypothesis = orig
        ok = len(seen) == len(created) and all(a is b for a, b in zip(seen, created))
        # the library's own DBC class is not announced, user classes are kept until the hook is installed
        ok = ok and icontract.DBC not in seen
    note(("hook", n, inv_mask, via, ok), True)
    return ok, True


ALL = ["a0", "b0", "s0", "i0", "d1", "a1", "b1", "i1", "fg", "p0", "p1", "p2", "p3", "q0", "q1", "q2", "v0", "v1", "w0", "w1"]


CTOR_SHAPES = ["with_init", "no_init_class_attribute", "namedtuple", "dbc_base_no_init", "dbc_derived_no_init"]
CTOR_ON = [icontract.InvariantCheckEvent.CALL, icontract.InvariantCheckEvent.SETATTR, icontract.InvariantCheckEvent.ALL]


def run_ctor_invariants(shape_i: int, on0: int, on1: int, t0: bool, t1: bool) -> Tuple[bool, bool]:
    """Constructor calls: every invariant listed in ``cls.__invariants__`` - whatever its check_on event - is established
    by the real construction; judging the constructed object by hand against that list gives the same verdict."""
    from typing import NamedTuple
    shape_i, on0, on1 = conc(shape_i, 0, len(CTOR_SHAPES) - 1), conc(on0, 0, 2), conc(on1, 0, 2)
    shape = CTOR_SHAPES[shape_i]
    truth = {"i0": True, "i1": True}  # type: Dict[str, Any]
    with untraced():
        def cond(name: str) -> Any:
            def c(self: Any) -> Any:
                return truth[name]
            c.__name__ = name
            return c

        def deco(cls: Any) -> Any:
            cls = icontract.invariant(cond("i0"), error=lambda: Tag("i0"), check_on=CTOR_ON[on0])(cls)
            return icontract.invariant(cond("i1"), error=lambda: Tag("i1"), check_on=CTOR_ON[on1])(cls)
        if shape == "with_init":
            class K:
                def __init__(self) -> None:
                    self.v = 1
            cls = deco(K)
            args = ()  # type: Tuple[Any, ...]
        elif shape == "no_init_class_attribute":
            class K2:
                v = 1
            cls = deco(K2)
            args = ()
        elif shape == "namedtuple":
            NT = NamedTuple("NT", [("v", int)])
            cls = deco(NT)
            args = (1,)
        elif shape == "dbc_base_no_init":
            cls = deco(icontract.DBCMeta("Base", (icontract.DBC,), {"v": 1}))
            args = ()
        else:
            base = deco(icontract.DBCMeta("Base", (icontract.DBC,), {"v": 1}))
            cls = icontract.DBCMeta("Derived", (base,), {"w": 2})
            args = ()
        listed = [c.condition.__name__ for c in cls.__invariants__]
        inst = cls(*args)  # all invariants hold: a reference instance for the manual judgement
    ok = listed == ["i0", "i1"]
    truth["i0"], truth["i1"] = t0, t1
    try:
        fresh(cls, *args)
        real = "ret"
    except Tag as err:
        real = err.label
    manual = "ret"
    for inv in cls.__invariants__:
        if not inv.condition(self=inst):
            manual = inv.condition.__name__
            break
    if real != manual:
        ok = False
    note(("ctor_invariants", shape, on0, on1, real, manual), manual != "ret")
    return ok, manual != "ret"


def harnesses(tier: str) -> List[H]:
    out = []  # type: List[H]
    CI = ["shape_i", "on0", "on1", "t0", "t1"]
    out.append(H("ctor_invariants", bind(run_ctor_invariants, (), CI, {}, CI),
                 [I("shape_i", 0, len(CTOR_SHAPES) - 1), I("on0", 0, 2), I("on1", 0, 2), B("t0"), B("t1")], tiers=(tier,),
                 timeout=300,
                 family="constructor call of classes {} with two invariants, each with check_on in {{CALL, SETATTR, ALL}}; the real "
                        "construction vs. evaluating cls.__invariants__ by hand".format(CTOR_SHAPES),
                 family_size=len(CTOR_SHAPES) * 9))
    kinds = ["func", "method", "prop_get"] if tier == "quick" else ["func", "method", "static", "class", "prop_get",
                                                                     "prop_set", "prop_del"]
    for kind in kinds:
        for d1 in ((0,) if kind == "func" else (0, 1, 2)):
            a1_values = [None] if d1 != 2 else ([0, 1] if tier == "quick" else [0, 1, 2])
            for a1 in a1_values:
                params = [I("a0", 0, 2), I("b0", 0, 2), I("s0", 0, 1)]
                defaults = {"d1": d1, "i0": 0, "a1": 0 if a1 is None else a1, "b1": 0, "i1": 0, "p2": True, "p3": True,
                            "q2": True, "v0": True, "v1": True, "w0": True, "w1": True}
                has_inv = kind in INV_AROUND
                if has_inv:
                    params += [I("i0", 0, 1)]
                if d1 >= 1 and has_inv:
                    params += [I("i1", 0, 1)]
                if d1 == 2:
                    params += [I("b1", 0, 1)]
                params += [B("fg"), B("p0"), B("p1"), B("q0"), B("q1")]
                if d1 == 2:
                    params += [B("p2"), B("q2")] + ([B("p3")] if tier == "thorough" else [])
                if has_inv:
                    params += [B("v0"), B("w0")] + ([B("v1"), B("w1")] if d1 >= 1 else [])
                name = "intro_{}{}{}".format(kind, "" if kind == "func" else "_d%d" % d1, "" if a1 is None else "a%d" % a1)
                out.append(H(name, bind(run_intro, (kind,), ALL, defaults, [p.name for p in params]), params, tiers=(tier,),
                             timeout=900,
                             family="kind={}: pre 0..2, post 0..2, snapshot 0..1, invariants per level 0..1, with/without a "
                                    "foreign functools.wraps decorator on top; subclass level {}".format(
                                        kind, ["absent", "not overriding", "overriding with %s own preconditions" % a1][d1]),
                             family_size=36 * (2 if has_inv else 1) * [1, 2, 4][d1]))
    out.append(H("hook", bind(run_hook, (), ["n", "inv_mask", "via"], {}, ["n", "inv_mask", "via"]),
                 [I("n", 1, 4), I("inv_mask", 0, 15), I("via", 0, 3)], tiers=(tier,), timeout=200,
                 family="chains of 1..4 classes created through DBCMeta(...), type(base)(...), types.new_class, or rooted in a class "
                        "with metaclass=DBCMeta and no DBC base, any "
                        "subset carrying an invariant; recorder installed in place of the registration hook",
                 family_size=4 * 16 * 3))
    return out
