"""Small helpers shared by all harnesses (no icontract import here)."""
import contextvars
import hashlib
import reprlib
from typing import Any, Callable, Dict, List, Tuple

# ---------------------------------------------------------------------------------------------
# Evidence notes: every harness calls ``note(trace, witness)`` once at the end of a path.  ``trace``
# must be made of concrete strings (labels of what happened), never of symbolic values.
# ---------------------------------------------------------------------------------------------
NOTES_ENABLED = False
_NOTES = {}  # type: Dict[str, Tuple[Any, bool]]
_NOTE_CALLS = 0


try:  # only importable in the overlay venv
    from crosshair.tracers import NoTracing as _NoTracing  # type: ignore
    from crosshair.tracers import is_tracing as _is_tracing  # type: ignore
except ImportError:  # plain CPython
    _NoTracing = None  # type: ignore
    _is_tracing = None  # type: ignore


class untraced:
    """``with untraced():`` - run purely concrete code natively (outside CrossHair's interpreter).

    Only to be used around code that touches no symbolic value (program construction from concrete
    selectors, evidence bookkeeping).  A no-op in plain CPython.
    """

    def __enter__(self) -> None:
        self._cm = None
        if _NoTracing is not None and _is_tracing():
            self._cm = _NoTracing()
            self._cm.__enter__()

    def __exit__(self, *exc: Any) -> None:
        if self._cm is not None:
            self._cm.__exit__(*exc)


def conc(v: Any, lo: int, hi: int) -> int:
    """Turn a (possibly symbolic) selector into a genuine Python int by case split over [lo, hi]."""
    while lo < hi:
        mid = (lo + hi) // 2
        if v <= mid:
            hi = mid
        else:
            lo = mid + 1
    if v == lo:
        return lo
    raise AssertionError("selector out of its declared range")


def concb(v: Any) -> bool:
    return True if v else False


def _plain(v: Any) -> Any:
    """Keep only genuinely concrete builtins (a symbolic proxy's type is not int/str/bool)."""
    t = type(v)
    if t is tuple or t is list:
        return tuple(_plain(e) for e in v)
    if t is int or t is str or t is bool or v is None:
        return v
    return "?"


def note(trace: Any, witness: bool) -> None:
    global _NOTE_CALLS
    if not NOTES_ENABLED:
        return
    w = True if witness else False
    with untraced():
        _NOTE_CALLS += 1
        text = repr(_plain(trace))
        key = hashlib.sha1(text.encode()).hexdigest()[:16]
        if key not in _NOTES:
            _NOTES[key] = (text, w)


def dump_notes() -> Dict[str, Any]:
    nontrivial = [v[0] for v in _NOTES.values() if v[1]]
    return {
        "calls": _NOTE_CALLS,
        "distinct": len(_NOTES),
        "distinct_nontrivial": len(nontrivial),
        "samples": nontrivial[:6] if nontrivial else [v[0] for v in list(_NOTES.values())[:3]],
    }


def reset_notes() -> None:
    global _NOTE_CALLS
    _NOTES.clear()
    _NOTE_CALLS = 0


# ---------------------------------------------------------------------------------------------
def fresh(fn: Callable[..., Any], *args: Any, **kwargs: Any) -> Any:
    """Run ``fn`` in a brand-new contextvars.Context (CrossHair iterations share the process context)."""
    return contextvars.Context().run(fn, *args, **kwargs)


class RecRepr(reprlib.Repr):
    """A recording ``a_repr``: stores the raw object and renders a token ``<k>``."""

    def __init__(self) -> None:
        super().__init__()
        self.seen = []  # type: List[Any]

    def repr(self, x: Any) -> str:  # noqa: A003
        self.seen.append(x)
        return "<{}>".format(len(self.seen) - 1)


class Tag(Exception):
    """Exception raised/returned by harness error factories; carries a concrete label."""

    def __init__(self, label: Any = None) -> None:
        super().__init__(label)
        self.label = label


class FalsyTag(Tag):
    """Like Tag, but falsy (an exception class that defines __len__, e.g. one carrying a collection of details)."""

    def __len__(self) -> int:
        return 0


class BodyError(Exception):
    pass


class BodyBase(BaseException):
    pass


class BodyKbd(KeyboardInterrupt):
    pass


def drive(coro: Any) -> Any:
    """Run a coroutine to completion by hand (no event loop); suspensions are simply resumed."""
    try:
        while True:
            coro.send(None)
    except StopIteration as stop:
        return stop.value


class Suspend:
    """Awaitable that suspends exactly once."""

    def __await__(self):  # type: ignore
        yield None
        return None


class AwaitableValue:
    """A non-coroutine awaitable (like a Future): suspends once, then yields its value."""

    def __init__(self, value: Any) -> None:
        self.value = value

    def __await__(self):  # type: ignore
        yield None
        return self.value


def outcome_of(fn: Callable[[], Any], catch: Tuple[type, ...]) -> Tuple[str, Any]:
    """Call fn; ('ret', value) or ('raise', exc).  Only the listed exception classes are caught."""
    try:
        return ("ret", fn())
    except catch as err:  # noqa: B030
        return ("raise", err)
