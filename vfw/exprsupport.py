"""Run-time support for the generated expression modules (C06/C07/C20)."""
import reprlib
from typing import Any, List


class _Rec(reprlib.Repr):
    """Recording a_repr: stores the raw object, renders the token <k>."""

    def __init__(self) -> None:
        super().__init__()
        self.seen = []  # type: List[Any]

    def repr(self, x: Any) -> str:  # noqa: A003
        self.seen.append(x)
        return "<{}>".format(len(self.seen) - 1)


REC = _Rec()


class Obj:
    def __init__(self, n: Any, xs: Any, flag: Any) -> None:
        self.n = n
        self.xs = xs
        self.flag = flag

    def get(self, d: Any) -> Any:
        return self.n + d

    def check(self, d: Any) -> Any:
        return self.n > d


def func(*a: Any, k: Any = 0) -> Any:
    total = k
    for v in a:
        total = total + v
    return total


def kwsum(**kw: Any) -> Any:
    total = 0
    for v in kw.values():
        total = total + v
    return total


def kwkeys(**kw: Any) -> Any:
    return list(kw.keys())


class AnyEq:
    """Compares equal to everything (like ``unittest.mock.ANY``)."""

    def __eq__(self, other: Any) -> bool:
        return True

    def __ne__(self, other: Any) -> bool:
        return False

    def __hash__(self) -> int:
        return 1


class _NoTruth:
    def __bool__(self) -> bool:
        raise ValueError("the truth value of an element-wise comparison is ambiguous")


class NoTruthEq:
    """Element-wise equality like a numpy array or a pandas Series: the result of ``==`` has no truth value."""

    def __eq__(self, other: Any) -> Any:
        return _NoTruth()

    def __ne__(self, other: Any) -> Any:
        return _NoTruth()

    def __hash__(self) -> int:
        return 2
