"""Grammar-based generator of condition expressions (C06/C07/C20) and of their instrumented CPython twins.

The expressions range over the parameters

    x, y : int        b : bool        xs : List[int]        o : Obj (attributes n: int, xs: List[int], flag: bool)

plus a module global ``G`` (int), a closure variable ``C`` (int), a global function ``func`` and the builtins.
"""
import ast
import itertools
import random
from typing import Any, Dict, List, Optional, Sequence, Set, Tuple

PARAMS = ["x", "y", "b", "xs", "o"]

# ---------------------------------------------------------------------------------------------
# grammar
# ---------------------------------------------------------------------------------------------
INT_ATOMS = ["x", "y", "1", "G", "C", "o.n", "len(xs)"]
INT_L1 = [
    "x + y", "x - 1", "x * 2", "y // 2", "x % 3", "-x", "~y", "+x", "abs(x)", "max(x, y)", "min(x, 0)", "xs[0]", "xs[-1]",
    "x ** 2", "x << 1", "y >> 1", "x | 1", "x & y", "x ^ 1",
    "sum(xs)", "sum(i for i in xs)", "len([i for i in xs if i > 0])", "int(b)", "(z := x + 1)", "x if b else y",
    "o.xs[0]", "o.get(x)", "func(x, k=y)", "func(*xs[:1])", "func(**{'k': x})", "len({i for i in xs})",
    "len({i: i + 1 for i in xs})", "{'a': x}['a']", "(x, y)[0]", "[x, y][1]", "len(xs[1:])", "len(xs[::2])", "sum(xs[:y])",
    "kwsum(**{'k': x}, **{'j': y})", "kwsum(**{'k': x}, j=y, **{'i': 1})", "func(*xs[:1], *xs[1:2], k=y)",
    "len(str(x)) - 1", "len(f'{x}') - 1", "len(f'{x!r:>3}') - 3", "x.real", "o.n + G", "C - y",
    # displays holding values with an unusual ``==`` (W equals everything, V == ... has no truth value)
    "len([W, x])", "len((V, y))", "func(len((W, V)), k=x)",
    # starred elements of displays and unpacked mappings of dict displays
    "len([*xs, x])", "sum((*xs, y))", "len({*xs, x})", "len({**{'k': x}, 'j': y})", "{**{'k': x}}['k']",
]
DISPLAY_EXTRAS = INT_L1[-8:]
BOOL_ATOMS = ["b", "o.flag", "True"]


def bool_l1(ints: Sequence[str]) -> List[str]:
    out = []
    for i in ints:
        out += ["{} > 0".format(i), "{} == y".format(i), "0 < {} <= 5".format(i), "{} != 1".format(i),
                "{} in xs".format(i), "{} not in xs".format(i), "{} >= x".format(i)]
    out += ["x is None", "x is not None", "isinstance(x, int)", "bool(xs)", "xs == [1]", "xs != []", "not b",
            "all(i > 0 for i in xs)", "any(i > x for i in xs)", "all(i > y for i in xs if i != 0)",
            "all(i + j > 0 for i in xs for j in xs)", "all(i > 0 for i in o.xs)", "all(abs(i) > x for i in xs)",
            "f'{x}' == '1'", "f'{o.n}-{abs(x)}' == 'zz'", "{x, y} == {1}", "(x, y) == (1, 2)", "[x] == xs", "{'a': x} == {}", "xs[1:] == []",
            "x < y < 3", "x < y <= G < 9", "x == y == 0", "0 < x < 10 // x", "o.check(x)", "callable(func)",
            "str(x) == '1'", "x in (1, 2)", "x in {1: 2}", "len(xs) > 0 and xs[0] > 0", "xs and xs[0] > 0",
            "not xs or xs[0] > 0", "b and x > 0", "b or x > 0", "x > 0 if b else y > 0", "(w := len(xs)) > 1 and w < 3",
            "x is y", "b is True", "[i for i in xs if i > 0] == xs", "{i for i in xs} == {1}",
            "{i: 0 for i in xs} == {}", "sorted(xs) == xs", "sorted(xs, reverse=True) == xs", "kwkeys(**{'k': x}, j=y) == ['j', 'k']",
            "kwkeys(j=y, **{'k': x}) == []", "all(x > 0 for x in xs)", "len([x for x in xs]) > x + 5",
            "str(all(i > 0 for i in xs)) == 'True'", "all(i for i in xs) and len(xs) > 2",
            "any(10 // y > i for i in xs)",
            # displays: values with an unusual ``==``; starred elements; unpacked mappings
            "len([W, x]) > x", "len((V, y)) < y", "func(len((W, V)), k=x) > 5", "len([*xs, x]) > 3", "sum((*xs, y)) > 0",
            "len({*xs, x}) > 2", "len({**{'k': x}, 'j': y}) > y", "{**{'k': x}}['k'] > 0", "[*xs, x] == [1]", "(W, x) == (1, 2)",
            # a global variable named like a built-in
            "x < hash", "hash - y > 0 and x > 0"]
    return out


def combine(bools: Sequence[str], rnd: random.Random, n: int) -> List[str]:
    out = []  # type: List[str]
    bl = list(bools)
    while len(out) < n:
        a, b2 = rnd.choice(bl), rnd.choice(bl)
        form = rnd.choice(["({}) and ({})", "({}) or ({})", "not ({})", "({}) if b else ({})", "({}) and ({}) and b",
                           "({}) or ({}) or b", "({}) == ({})", "all([({}), ({})])"])
        e = form.format(a, b2) if form.count("{}") == 2 else form.format(a)
        if e not in out:
            out.append(e)
    return out


def family(tier: str, seed: int) -> List[str]:
    """The deterministic list of condition expressions for a tier (seed only permutes the sampled part)."""
    rnd = random.Random(1000 + seed)
    l1 = bool_l1(INT_ATOMS[:3]) if tier == "quick" else bool_l1(INT_ATOMS)
    seen = []  # type: List[str]
    for e in BOOL_ATOMS[:2] + l1:
        if e not in seen:
            seen.append(e)
    # comparisons over every level-1 int expression
    ints = INT_L1 if tier == "thorough" else INT_L1[:-8:2] + ["len(f'{x!r:>3}') - 3", "func(**{'k': x})", "o.get(x)"]
    for i in ints:
        e = "{} > 0".format(i)
        if e not in seen:
            seen.append(e)
    if tier == "thorough":
        for i in INT_L1:
            for form in ("{} == y", "0 < {} <= 5", "x < {} or b"):
                seen.append(form.format(i))
    if tier == "quick":
        # (sets built from a symbolic list are slow to explore: thorough tier only)
        seen = [e for e in seen if "{*xs" not in e]
    depth2 = combine(seen, rnd, 24 if tier == "quick" else 120)
    out = seen + depth2
    # validity: must compile
    ok = []
    for e in out:
        try:
            ast.parse(e, mode="eval")
            ok.append(e)
        except SyntaxError:
            pass
    return ok


# ---------------------------------------------------------------------------------------------
# instrumentation: the CPython twin
# ---------------------------------------------------------------------------------------------
_COMP = (ast.ListComp, ast.SetComp, ast.DictComp, ast.GeneratorExp)


class _Instrument(ast.NodeTransformer):
    """Wrap every name / attribute / call / subscript / comprehension / f-string / named expression that is evaluated
    outside a comprehension scope in ``__rec__(kind, text, value)``; evaluation order and short-circuiting are preserved."""

    def __init__(self, src: str) -> None:
        self.src = src
        self.inside = []  # type: List[str]   # texts of recordable nodes inside comprehension scopes
        self.in_fstring = 0

    def _text(self, node: ast.AST) -> str:
        seg = ast.get_source_segment(self.src, node)
        assert seg is not None
        return seg

    def _wrap(self, kind: str, node: ast.expr, new: ast.expr, text: Optional[str] = None) -> ast.expr:
        if self.in_fstring and kind != "fstring":
            kind = "fstr:" + kind  # evaluated inside an f-string (see known finding KF-C06-1)
        call = ast.Call(func=ast.Name(id="__rec__", ctx=ast.Load()),
                        args=[ast.Constant(kind), ast.Constant(text if text is not None else self._text(node)), new],
                        keywords=[])
        return ast.copy_location(call, node)

    def _comp(self, node: ast.expr) -> ast.expr:
        # do not descend: the inside runs in its own scope.  Remember what is inside for the oracle.
        for sub in ast.walk(node):
            if sub is node:
                continue
            if isinstance(sub, (ast.Name, ast.Attribute, ast.Call, ast.Subscript, ast.JoinedStr, ast.ListComp, ast.SetComp,
                                ast.DictComp)) and not isinstance(getattr(sub, "ctx", None), ast.Store):
                self.inside.append(self._text(sub))
        return node

    def visit_ListComp(self, node: ast.ListComp) -> Any:
        return self._wrap("comp", node, self._comp(node))

    def visit_SetComp(self, node: ast.SetComp) -> Any:
        return self._wrap("comp", node, self._comp(node))

    def visit_DictComp(self, node: ast.DictComp) -> Any:
        return self._wrap("comp", node, self._comp(node))

    def visit_GeneratorExp(self, node: ast.GeneratorExp) -> Any:
        return self._comp(node)

    def visit_Name(self, node: ast.Name) -> Any:
        if isinstance(node.ctx, ast.Load):
            return self._wrap("name", node, node)
        return node

    def visit_Attribute(self, node: ast.Attribute) -> Any:
        text = self._text(node)
        self.generic_visit(node)
        return self._wrap("attr", node, node, text)

    def visit_Subscript(self, node: ast.Subscript) -> Any:
        text = self._text(node)
        self.generic_visit(node)
        return self._wrap("subscript", node, node, text)

    def visit_Call(self, node: ast.Call) -> Any:
        text = self._text(node)
        self.generic_visit(node)
        return self._wrap("call", node, node, text)

    def visit_JoinedStr(self, node: ast.JoinedStr) -> Any:
        text = self._text(node)
        self._fstring_values(node)
        return self._wrap("fstring", node, node, text)

    def _fstring_values(self, node: ast.JoinedStr) -> None:
        for part in node.values:
            if isinstance(part, ast.FormattedValue):
                self.in_fstring += 1
                part.value = self.visit(part.value)
                self.in_fstring -= 1
                if isinstance(part.format_spec, ast.JoinedStr):
                    self._fstring_values(part.format_spec)

    def visit_NamedExpr(self, node: ast.NamedExpr) -> Any:
        node.value = self.visit(node.value)
        return self._wrap("named", node, node, node.target.id)


def instrument(expr: str) -> Tuple[str, List[str]]:
    """Returns (source of the instrumented expression, texts of recordable sub-expressions inside comprehensions)."""
    tree = ast.parse(expr, mode="eval")
    tr = _Instrument(expr)
    new = tr.visit(tree)
    ast.fix_missing_locations(new)
    return ast.unparse(new), tr.inside


def all_generators(expr: str) -> List[Tuple[str, str]]:
    """For every ``all(<generator expression>)`` call outside comprehension scopes: (call text, source of a function body
    computing the first falsifying assignment with plain loops)."""
    tree = ast.parse(expr, mode="eval")
    out = []

    def visit(node: ast.AST, in_comp: bool) -> None:
        if isinstance(node, _COMP):
            in_comp = True
        if (not in_comp and isinstance(node, ast.Call) and isinstance(node.func, ast.Name) and node.func.id == "all"
                and len(node.args) == 1 and isinstance(node.args[0], ast.GeneratorExp) and not node.keywords):
            gen = node.args[0]
            names = []  # type: List[str]
            for g in gen.generators:
                for sub in ast.walk(g.target):
                    if isinstance(sub, ast.Name) and sub.id not in names:
                        names.append(sub.id)
            lines = []
            indent = ""
            for g in gen.generators:
                lines.append("{}for {} in {}:".format(indent, ast.unparse(g.target), ast.unparse(g.iter)))
                indent += "    "
                for cond in g.ifs:
                    lines.append("{}if {}:".format(indent, ast.unparse(cond)))
                    indent += "    "
            lines.append("{}if not ({}):".format(indent, ast.unparse(gen.elt)))
            lines.append("{}    return [{}]".format(indent, ", ".join("({!r}, {})".format(n, n) for n in names)))
            lines.append("return None")
            text = ast.get_source_segment(expr, node)
            assert text is not None
            out.append((text, "\n".join(lines)))
        for child in ast.iter_child_nodes(node):
            visit(child, in_comp)

    visit(tree, False)
    return out


# ---------------------------------------------------------------------------------------------
# module generation
# ---------------------------------------------------------------------------------------------
MODULE_HEADER = '''"""generated by vfw.exprgen - regenerated on every run, do not edit"""
import icontract
from vfw.exprsupport import REC, Obj, func, kwsum, kwkeys, AnyEq, NoTruthEq

G = 7
W = AnyEq()
V = NoTruthEq()
# a module-level variable that shadows a built-in name
hash = 9
# module-level names that collide with parameters of the conditions (the arguments must win)
y = 77
xs = [42, 42, 42]


def _make(C):
    FUNCS, TWINS, FIRST = [], [], []
'''


def module_source(exprs: Sequence[str], decorator: str = "require") -> Tuple[str, List[Dict[str, Any]]]:
    """Source of a module defining, per expression k, the contracted function FUNCS[k] and its twin TWINS[k]."""
    parts = [MODULE_HEADER]
    meta = []  # type: List[Dict[str, Any]]
    for k, e in enumerate(exprs):
        inst, inside = instrument(e)
        gens = all_generators(e)
        if decorator == "require":
            parts.append("    @icontract.require(lambda x, y, b, xs, o: {}, a_repr=REC)\n".format(e))
            parts.append("    def f_{}(x, y, b, xs, o):\n        return None\n".format(k))
        elif decorator == "ensure":
            parts.append("    @icontract.ensure(lambda x, y, b, xs, o: {}, a_repr=REC)\n".format(e))
            parts.append("    def f_{}(x, y, b, xs, o):\n        return None\n".format(k))
        parts.append("    def t_{}(x, y, b, xs, o, __rec__):\n        return {}\n".format(k, inst))
        firsts = []
        for gi, (text, body) in enumerate(gens):
            parts.append("    def first_{}_{}(x, y, b, xs, o):\n{}\n".format(
                k, gi, "\n".join("        " + ln for ln in body.splitlines())))
            firsts.append("({!r}, first_{}_{})".format(text, k, gi))
        parts.append("    FUNCS.append(f_{k}); TWINS.append(t_{k}); FIRST.append([{f}])\n".format(k=k, f=", ".join(firsts)))
        meta.append({"expr": e, "inside": inside})
    parts.append("    return FUNCS, TWINS, FIRST\n\n\nFUNCS, TWINS, FIRST = _make(3)\n")
    return "".join(parts), meta
