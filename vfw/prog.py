"""Program descriptions and the reference model (oracle) of contract semantics.

Written from the property statements (C01-C04, C08, C16); it does NOT import icontract.

A program is one *member under test* (a callable of some kind) declared along a linear chain of
class levels (level 0 = root base, last level = the class whose instance is used), or a plain
function (exactly one level).  Multiple inheritance is modelled separately in harness C04.
"""
from dataclasses import dataclass, field
from typing import Any, Callable, List, Optional, Tuple

FUNC_KINDS = ("func",)
MEMBER_KINDS = ("method", "static", "class", "prop_get", "prop_set", "prop_del", "init", "new")
ALL_KINDS = FUNC_KINDS + MEMBER_KINDS
ASYNC_KINDS = ("func", "method", "static", "class")
#: kinds around which invariants are checked before and after
INV_AROUND = ("method", "prop_get", "prop_set", "prop_del")
#: constructors: all invariants after
CTOR_KINDS = ("init", "new")
#: kinds that receive the argument ``x``
X_KINDS = ("func", "method", "static", "class", "prop_set", "init", "new")


@dataclass(frozen=True)
class Level:
    defines: bool = True  # this class defines (overrides) the member
    pre: int = 0  # number of own preconditions
    post: int = 0  # number of own postconditions
    snaps: int = 0  # number of own snapshots
    inv: Tuple[str, ...] = ()  # check_on of each own invariant: "CALL" | "SETATTR" | "ALL"
    foreign: bool = False  # a foreign functools.wraps decorator on top of this level's contract decorators


@dataclass(frozen=True)
class Prog:
    kind: str
    is_async: bool = False
    levels: Tuple[Level, ...] = (Level(),)

    def valid(self) -> bool:
        if self.kind not in ALL_KINDS:
            return False
        if self.is_async and self.kind not in ASYNC_KINDS:
            return False
        if self.kind == "func" and (len(self.levels) != 1 or self.levels[0].inv):
            return False
        if not self.levels or not self.levels[0].defines:
            return False
        for lev in self.levels:
            if not lev.defines and (lev.pre or lev.post or lev.snaps):
                return False
        return True


Ref = Tuple[int, int]  # (level, index)


@dataclass
class Effective:
    groups: List[List[Ref]] = field(default_factory=list)
    posts: List[Ref] = field(default_factory=list)
    snaps: List[Ref] = field(default_factory=list)
    invs: List[Ref] = field(default_factory=list)  # all invariants, inherited first
    invs_call: List[Ref] = field(default_factory=list)
    invs_setattr: List[Ref] = field(default_factory=list)
    #: level at whose creation TypeError must be raised (weakening without base preconditions)
    creation_error_at: Optional[int] = None
    #: level at whose creation ValueError must be raised (snapshot without postcondition / duplicate)
    snapshot_error_at: Optional[int] = None


_EFF_CACHE = {}  # type: dict


def effective(prog: Prog, upto: Optional[int] = None) -> Effective:
    """Effective contracts (cached; ``prog`` is always concrete, so this is computed natively)."""
    from vfw.hlib import untraced

    with untraced():
        key = (prog, upto)
        hit = _EFF_CACHE.get(key)
        if hit is None:
            hit = _effective(prog, upto)
            _EFF_CACHE[key] = hit
    return hit


def _effective(prog: Prog, upto: Optional[int] = None) -> Effective:
    """Effective contracts of the member for an instance of level ``upto`` (default: the last)."""
    eff = Effective()
    last = len(prog.levels) - 1 if upto is None else upto
    provided = False
    for lvl in range(last + 1):
        lev = prog.levels[lvl]
        for i, on in enumerate(lev.inv):
            eff.invs.append((lvl, i))
            if on in ("CALL", "ALL"):
                eff.invs_call.append((lvl, i))
            if on in ("SETATTR", "ALL"):
                eff.invs_setattr.append((lvl, i))
        if not lev.defines:
            continue
        own_group = [(lvl, i) for i in range(lev.pre)]
        own_posts = [(lvl, i) for i in range(lev.post)]
        own_snaps = [(lvl, i) for i in range(lev.snaps)]
        if prog.kind in CTOR_KINDS:
            # constructor contracts are not inherited
            eff.groups = [own_group] if own_group else []
            eff.posts = own_posts
            eff.snaps = own_snaps
        else:
            if provided and not eff.groups and own_group and eff.creation_error_at is None:
                eff.creation_error_at = lvl
            if own_group:
                eff.groups = eff.groups + [own_group]
            eff.posts = eff.posts + own_posts
            eff.snaps = eff.snaps + own_snaps
        provided = True
    return eff


Outcome = Tuple[Any, ...]


def expect(
    prog: Prog,
    tv: Callable[..., Any],
    body_raises: bool,
    upto: Optional[int] = None,
) -> Tuple[List[Tuple[Any, ...]], Outcome]:
    """Expected event trace and outcome of ONE call of the member on a constructed instance.

    ``tv(role, level, index, when)`` gives the (possibly symbolic) value the condition returns;
    ``when`` is "before"/"after" for invariants and None otherwise.
    Outcome: ("ret",) | ("raise_body",) | ("violation", role, level, index, when)
    """
    eff = effective(prog, upto)
    assert eff.creation_error_at is None
    ev = []  # type: List[Tuple[Any, ...]]

    around = prog.kind in INV_AROUND
    if around:
        for (lvl, i) in eff.invs_call:
            ev.append(("inv", lvl, i, "before"))
            if not tv("inv", lvl, i, "before"):
                return ev, ("violation", "inv", lvl, i, "before")

    failed = None  # type: Optional[Ref]
    for group in eff.groups:
        failed = None
        for (lvl, i) in group:
            ev.append(("pre", lvl, i))
            if not tv("pre", lvl, i, None):
                failed = (lvl, i)
                break
        if failed is None:
            break
    if failed is not None:
        return ev, ("violation", "pre", failed[0], failed[1], None)

    if eff.posts and eff.snaps:
        for (lvl, i) in eff.snaps:
            ev.append(("snap", lvl, i))

    ev.append(("body",))
    if body_raises:
        return ev, ("raise_body",)

    for (lvl, i) in eff.posts:
        ev.append(("post", lvl, i))
        if not tv("post", lvl, i, None):
            return ev, ("violation", "post", lvl, i, None)

    if around:
        after = eff.invs_call
    elif prog.kind in CTOR_KINDS:
        after = eff.invs
    else:
        after = []
    for (lvl, i) in after:
        ev.append(("inv", lvl, i, "after"))
        if not tv("inv", lvl, i, "after"):
            return ev, ("violation", "inv", lvl, i, "after")

    return ev, ("ret",)
