"""vf command line."""
import argparse
import os
import subprocess
import sys

VERIF = os.path.dirname(os.path.dirname(os.path.abspath(__file__)))
sys.path.insert(0, VERIF)
sys.dont_write_bytecode = True


def main() -> int:
    ap = argparse.ArgumentParser(prog="vf")
    sub = ap.add_subparsers(dest="cmd", required=True)
    sub.add_parser("setup")
    c = sub.add_parser("check")
    c.add_argument("prop")
    c.add_argument("--tier", default=os.environ.get("VERIF_TIER", "quick"), choices=["quick", "thorough"])
    c.add_argument("--only", default=None, help="regex over harness names")
    c.add_argument("--jobs", type=int, default=0)
    r = sub.add_parser("replay")
    r.add_argument("path")
    args = ap.parse_args()

    from vfw import runner

    if args.cmd == "setup":
        runner.ensure_venv()
        print("setup ok")
        return 0
    if args.cmd == "check":
        return runner.check_property(args.prop, args.tier, only=args.only, jobs=args.jobs)
    if args.cmd == "replay":
        flags = []
        with open(args.path) as f:
            for line in f.readlines()[:3]:
                if line.startswith("# PYFLAGS:"):
                    flags = line.split(":", 1)[1].split()
        return subprocess.call([runner.PLAIN_PY] + flags + [args.path], env=runner.child_env())
    return 2


if __name__ == "__main__":
    sys.exit(main())
