"""CrossHair entry point used by every symbolic check.

Runs inside the overlay venv (/verif/.venv).  Responsibilities (DESIGN.md 1.5, 2):

* import icontract from $VERIF_REPO and prove it;
* undo CrossHair's monkey patch of icontract (it replaces the three ``_assert_*`` functions by
  no-ops at ``import crosshair.core_and_libs``) and verify by identity that nothing differs;
* switch off call short-circuiting so that no call is ever abstracted;
* count solver queries / solver seconds / symbolic paths, and record which functions of the
  repository's ``icontract`` package were entered while CrossHair was executing;
* run ``crosshair check --analysis_kind PEP316 --report_all`` on one target and dump the stats.

usage: launcher.py <stats.json> <per_condition_timeout> <per_path_timeout> <target file.py:LINE>
Exit code: CrossHair's (0 no problems, 1 counterexample/error, 2 CrossHair usage error); 3 if the
engine could not be prepared (never a property verdict).
"""
import json
import os
import sys
import time


def _fail(msg: str) -> None:
    sys.stderr.write("LAUNCHER-FAULT: " + msg + "\n")
    sys.exit(3)


def main() -> None:
    stats_path, cond_timeout, path_timeout, target = sys.argv[1:5]
    repo = os.path.realpath(os.environ.get("VERIF_REPO", "/repo"))
    verif = os.path.dirname(os.path.dirname(os.path.abspath(__file__)))
    sys.path.insert(0, repo)
    sys.path.insert(0, verif)

    import icontract
    import icontract._checkers
    import icontract._decorators
    import icontract._metaclass
    import icontract._recompute
    import icontract._represent
    import icontract._types

    icontract_dir = os.path.realpath(os.path.dirname(icontract.__file__))
    if icontract_dir != os.path.join(repo, "icontract"):
        _fail("icontract imported from {} and not from {}".format(icontract_dir, repo))

    mods = [
        icontract,
        icontract._checkers,
        icontract._decorators,
        icontract._metaclass,
        icontract._recompute,
        icontract._represent,
        icontract._types,
        icontract._globals,
        icontract.errors,
    ]
    before = {m.__name__: dict(vars(m)) for m in mods}

    import crosshair.core_and_libs  # noqa: F401  (this is what patches icontract)
    import crosshair.core
    import crosshair.main
    import crosshair.statespace
    import z3

    # ---- undo the monkey patch, then verify ---------------------------------------------------
    restored = []
    for m in mods:
        snap = before[m.__name__]
        now = vars(m)
        for k in list(now.keys()):
            if k not in snap:
                delattr(m, k)
                restored.append(m.__name__ + "." + k + " (removed)")
            elif now[k] is not snap[k]:
                setattr(m, k, snap[k])
                restored.append(m.__name__ + "." + k)
    for m in mods:
        snap = before[m.__name__]
        now = vars(m)
        if set(now) != set(snap) or any(now[k] is not snap[k] for k in snap):
            _fail("could not restore " + m.__name__)
    expected_patch = {
        "icontract._checkers._assert_invariant",
        "icontract._checkers._assert_preconditions",
        "icontract._checkers._assert_postconditions",
    }
    if not set(restored) <= expected_patch:
        # Something else was changed by the engine: restored anyway, but say so.
        sys.stderr.write("LAUNCHER-NOTE: restored {}\n".format(sorted(restored)))

    # ---- never abstract a call ----------------------------------------------------------------
    crosshair.core.consider_shortcircuit = lambda *a, **kw: None

    # ---- counters -----------------------------------------------------------------------------
    counters = {"queries": 0, "solver_s": 0.0, "paths": 0, "confirmed_paths": 0}
    _orig_check = z3.Solver.check

    def _check(self, *a):  # type: ignore
        t0 = time.perf_counter()
        try:
            return _orig_check(self, *a)
        finally:
            counters["queries"] += 1
            counters["solver_s"] += time.perf_counter() - t0

    z3.Solver.check = _check  # type: ignore

    _orig_space_init = crosshair.statespace.StateSpace.__init__

    def _space_init(self, *a, **kw):  # type: ignore
        counters["paths"] += 1
        return _orig_space_init(self, *a, **kw)

    crosshair.statespace.StateSpace.__init__ = _space_init  # type: ignore

    analyses = []
    _orig_analyze = crosshair.core.analyze_calltree

    def _analyze(options, conditions):  # type: ignore
        res = _orig_analyze(options, conditions)
        counters["confirmed_paths"] += res.num_confirmed_paths
        analyses.append(
            {
                "fn": getattr(conditions.fn, "__name__", "?"),
                "status": res.verification_status.name,
                "confirmed_paths": res.num_confirmed_paths,
            }
        )
        return res

    crosshair.core.analyze_calltree = _analyze

    entered = set()
    prefix = icontract_dir + os.sep
    mon = getattr(sys, "monitoring", None)
    mon_ok = False
    if mon is not None:
        try:
            tool = mon.COVERAGE_ID
            mon.use_tool_id(tool, "verif-cov")

            def _on_start(code, offset):  # type: ignore
                fn = code.co_filename
                if fn.startswith(prefix):
                    entered.add(
                        "{}:{}".format(os.path.relpath(fn, repo), code.co_qualname)
                    )
                return mon.DISABLE

            mon.register_callback(tool, mon.events.PY_START, _on_start)
            mon.set_events(tool, mon.events.PY_START)
            mon_ok = True
        except Exception as err:  # pragma: no cover
            sys.stderr.write("LAUNCHER-NOTE: sys.monitoring unavailable: {}\n".format(err))

    import vfw.hlib

    vfw.hlib.NOTES_ENABLED = True

    argv = [
        "check",
        "--analysis_kind",
        "PEP316",
        "--report_all",
        "--max_uninteresting_iterations",
        "1000000000",
        "--per_condition_timeout",
        cond_timeout,
        "--per_path_timeout",
        path_timeout,
        target,
    ]
    t_start = time.perf_counter()
    code = 2
    try:
        # unwalled_main = main without CrossHair's audit wall (the harnesses do no I/O; the wall
        # would only block this launcher's own stats file)
        code = crosshair.main.unwalled_main(argv)
    except SystemExit as ex:
        code = ex.code if isinstance(ex.code, int) else 2
    finally:
        wall = time.perf_counter() - t_start
        notes = vfw.hlib.dump_notes()
        with open(stats_path, "w") as f:
            json.dump(
                {
                    "queries": counters["queries"],
                    "solver_s": round(counters["solver_s"], 4),
                    "paths": counters["paths"],
                    "confirmed_paths": counters["confirmed_paths"],
                    "analyses": analyses,
                    "functions": sorted(entered),
                    "monitoring": mon_ok,
                    "restored": sorted(restored),
                    "wall_s": round(wall, 3),
                    "notes": notes,
                    "z3": z3.get_version_string(),
                },
                f,
            )
    sys.exit(code)


if __name__ == "__main__":
    main()
