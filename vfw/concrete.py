"""Run a harness on concrete points in plain CPython (no CrossHair).  JSON in on stdin, JSON out."""
import json
import os
import sys
import traceback

sys.dont_write_bytecode = True
VERIF = os.path.dirname(os.path.dirname(os.path.abspath(__file__)))
sys.path.insert(0, VERIF)
sys.path.insert(0, os.path.realpath(os.environ.get("VERIF_REPO", "/repo")))


def main() -> None:
    req = json.load(sys.stdin)
    import icontract

    repo = os.path.realpath(os.environ.get("VERIF_REPO", "/repo"))
    assert os.path.realpath(os.path.dirname(icontract.__file__)) == os.path.join(repo, "icontract"), icontract.__file__
    import importlib

    mod = importlib.import_module("harness." + req["prop"])
    h = [h for h in mod.harnesses(req["tier"]) if h.name == req["harness"]][0]
    results = []
    for pt in req["points"]:
        rec = {"args": pt}
        try:
            res = h.fn(*[pt[p.name] for p in h.params])
            rec["ok"] = bool(res[0])
            rec["witness"] = bool(res[1])
            if len(res) > 2:
                rec["detail"] = res[2]
        except Exception as err:
            rec["exception"] = "{}: {}".format(type(err).__name__, err)[:500]
            rec["traceback"] = traceback.format_exc()[-1500:]
        results.append(rec)
    json.dump({"results": results}, sys.stdout)


if __name__ == "__main__":
    main()
