"""Build real icontract-decorated programs from a ``vfw.prog.Prog`` through the public API only."""
import types
from typing import Any, Callable, Dict, List, Optional, Tuple

import icontract

from vfw.hlib import Tag, FalsyTag, drive, RecRepr, Suspend, AwaitableValue
from vfw.prog import (
    Prog,
    effective,
    X_KINDS,
    CTOR_KINDS,
)

_CODE_CACHE = {}  # type: Dict[Tuple[Any, ...], Any]


def mkfn(params: Tuple[str, ...], impl: Callable[[Dict[str, Any]], Any], is_async: bool = False,
         name: str = "fn", awaiting: bool = False) -> Callable[..., Any]:
    """Create ``def name(<params>): return impl({<param>: <param>, ...})`` (cached code object).

    ``is_async``: ``async def``; ``awaiting``: ``return await impl(...)`` (impl returns an awaitable).
    """
    key = (params, is_async, name, awaiting)
    code = _CODE_CACHE.get(key)
    if code is None:
        src = "{}def {}({}):\n    return {}__impl__({{{}}})\n".format(
            "async " if is_async else "",
            name,
            ", ".join(params),
            "await " if awaiting else "",
            # (a parameter may be spelled with a default: "name=<expression>")
            ", ".join("{!r}: {}".format(p.lstrip("*").split("=")[0], p.lstrip("*").split("=")[0])
                      for p in params if p not in ("/", "*")),
        )
        ns = {}  # type: Dict[str, Any]
        exec(compile(src, "<vfw.build:{}>".format(name), "exec"), ns)
        code = (ns[name].__code__, ns[name].__defaults__)
        _CODE_CACHE[key] = code
    fn = types.FunctionType(code[0], {"__impl__": impl}, name, code[1])
    fn.__qualname__ = name
    return fn


class RT:
    """Run-time side of a built program: event log, truth source, what callbacks saw."""

    def __init__(
        self,
        tv: Callable[..., Any],
        body: Optional[Callable[[Dict[str, Any]], Any]] = None,
        error_mode: str = "factory",
        capture: Optional[Callable[[int, int, Dict[str, Any]], Any]] = None,
    ) -> None:
        self.tv = tv
        self.body = body
        self.error_mode = error_mode
        self.capture = capture
        self.log = []  # type: List[Tuple[Any, ...]]
        self.errlog = []  # type: List[Tuple[Any, ...]]
        self.errseen = []  # type: List[Tuple[Tuple[Any, ...], Dict[str, Any]]]
        self.seen = []  # type: List[Tuple[Tuple[Any, ...], Dict[str, Any]]]
        self.phase = "setup"
        self.body_ran = False
        self.body_kwargs = None  # type: Optional[Dict[str, Any]]
        self.rec_seen = []  # type: List[Any]   # objects handed to the recording a_repr

    def begin(self) -> None:
        self.phase = "run"
        self.body_ran = False
        self.body_kwargs = None
        del self.log[:]
        del self.errlog[:]
        del self.errseen[:]
        del self.seen[:]


class _BuiltRepr(RecRepr):
    """Recording a_repr that stores into the RT currently attached to the program."""

    def __init__(self, built: "Built") -> None:
        super().__init__()
        self._built = built

    def repr(self, x: Any) -> str:  # noqa: A003
        seen = self._built.rt.rec_seen
        seen.append(x)
        return "<{}>".format(len(seen) - 1)


class Built:
    """A built program.  Static after ``build``; the per-path state lives in ``self.rt`` (swappable)."""

    def __init__(self, prog: Prog, rt: Optional[RT], error_mode: str) -> None:
        self.prog = prog
        self.rt = rt  # type: Any
        self.error_mode = error_mode
        self.func = None  # type: Any
        self.classes = []  # type: List[type]
        self.bare = None  # type: Any
        self.rec = _BuiltRepr(self)
        #: 0 = plain conditions/captures; 1 = coroutine functions (suspending once); 2 = plain functions
        #: returning a coroutine; 3 = plain functions returning a non-coroutine awaitable
        self.async_conds = 0
        #: None = async_conds applies to every level; otherwise only to the conditions/captures declared at this level
        self.async_level = None  # type: Optional[int]
        #: who asks for OLD when snapshots are in effect: 0 = postconditions and their error factories (mode
        #: factory_kw), 1 = only the error factories, 2 = nobody
        self.post_old = 0
        self.errors = {}  # type: Dict[Tuple[Any, ...], Any]   # label -> class / instance
        self.names = {}  # type: Dict[str, Tuple[Any, ...]]   # condition __name__ -> label


def _error_kwargs(rt: Built, label: Tuple[Any, ...], avail: Tuple[str, ...] = ()) -> Dict[str, Any]:
    mode = rt.error_mode
    if mode == "factory_kw":
        # an error factory that asks for every value available to this contract
        def err_impl(kw: Dict[str, Any]) -> Exception:
            rt.rt.errlog.append(label)
            rt.rt.errseen.append((label, kw))
            return Tag(label)
        return {"error": mkfn(avail, err_impl, name="err_{}_{}_{}".format(*label))}
    if mode == "factory":
        def err() -> Exception:
            rt.rt.errlog.append(label)
            return Tag(label)
        return {"error": err}
    if mode == "falsy_factory":
        def ferr() -> Exception:
            rt.rt.errlog.append(label)
            return FalsyTag(label)
        return {"error": ferr}
    if mode == "default":
        return {"a_repr": rt.rec}
    if mode == "class":
        cls = type("TagCls", (Exception,), {})
        rt.errors[label] = cls
        return {"error": cls, "a_repr": rt.rec}
    if mode == "instance":
        inst = Tag(label)
        rt.errors[label] = inst
        return {"error": inst}
    raise ValueError(mode)


def raised_types(rt: Built) -> Tuple[type, ...]:
    """The exception classes a violated contract of this program raises, per the configured error form."""
    mode = rt.error_mode
    if mode == "default":
        return (AssertionError,)  # ViolationError
    if mode == "class":
        return tuple(cls for cls in rt.errors.values() if isinstance(cls, type)) or (Tag,)
    return (Tag,)


def identify(rt: Built, exc: BaseException) -> Optional[Tuple[Any, ...]]:
    """Which contract does the raised exception belong to (label), per the configured error form."""
    mode = rt.error_mode
    if mode == "falsy_factory":
        if type(exc) is FalsyTag:
            return exc.label  # type: ignore
        return None
    if mode in ("factory", "factory_kw"):
        if type(exc) is Tag:
            return exc.label  # type: ignore
        return None
    if mode == "instance":
        for label, inst in rt.errors.items():
            if exc is inst:
                return label
        return None
    if mode == "class":
        for label, cls in rt.errors.items():
            if type(exc) is cls:
                return label
        return None
    if mode == "default":
        if type(exc) is not icontract.ViolationError:
            return None
        msg = str(exc)
        hits = [lab for name, lab in rt.names.items() if ("\n" + name + ":") in msg or msg.endswith("\n" + name)
                or ("\n" + name + "\n") in msg]
        if len(hits) == 1:
            return hits[0]
        return None
    raise ValueError(mode)


def _cond(built: Built, role: str, lvl: int, i: int, params: Tuple[str, ...], is_async: bool = False) -> Callable[..., Any]:
    label = (role, lvl, i)

    def impl(kw: Dict[str, Any]) -> Any:
        rt = built.rt
        when = None
        if role == "inv":
            if rt.phase == "setup":
                return True
            when = "after" if rt.body_ran else "before"
            rt.log.append(("inv", lvl, i, when))
        else:
            rt.log.append(label)
        rt.seen.append((label + (when,), kw))
        return rt.tv(role, lvl, i, when)

    name = "{}_{}_{}".format(role, lvl, i)
    built.names[name] = label
    return _maybe_async(built, params, impl, name, role != "inv" and (built.async_level is None or built.async_level == lvl),
                        index=i)


def _maybe_async(built: "Built", params: Tuple[str, ...], impl: Callable[[Dict[str, Any]], Any], name: str,
                 allowed: bool, index: int = 0) -> Callable[..., Any]:
    mode = built.async_conds if allowed else 0
    if mode == 4:
        # mixed: within one level the conditions / captures at even positions are coroutine functions, the others plain
        mode = 1 if index % 2 == 0 else 0
    if mode == 0:
        return mkfn(params, impl, name=name)

    async def aimpl(kw: Dict[str, Any]) -> Any:
        await Suspend()
        return impl(kw)

    if mode == 1:
        return mkfn(params, aimpl, is_async=True, name=name, awaiting=True)
    if mode == 3:
        # a plain function returning an awaitable which is NOT a coroutine (like an asyncio.Future or Task)
        return mkfn(params, lambda kw: AwaitableValue(impl(kw)), name=name)
    return mkfn(params, aimpl, name=name)  # a plain function returning a coroutine object


def _capture(built: Built, lvl: int, i: int, params: Tuple[str, ...]) -> Callable[..., Any]:
    def impl(kw: Dict[str, Any]) -> Any:
        rt = built.rt
        rt.log.append(("snap", lvl, i))
        rt.seen.append((("snap", lvl, i, None), kw))
        if rt.capture is not None:
            return rt.capture(lvl, i, kw)
        return ("captured", lvl, i)

    return _maybe_async(built, params, impl, "cap_{}_{}".format(lvl, i), built.async_level is None or built.async_level == lvl,
                        index=i)


def _body(built: Built, params: Tuple[str, ...], is_async: bool, name: str, kind: str) -> Callable[..., Any]:
    def impl(kw: Dict[str, Any]) -> Any:
        rt = built.rt
        rt.log.append(("body",))
        rt.body_ran = True
        rt.body_kwargs = kw
        if kind == "new":
            inst = object.__new__(kw["cls"])
            if rt.body is not None:
                rt.body(kw)
            return inst
        if rt.body is not None:
            res = rt.body(kw)
            return None if kind == "init" else res
        return None

    if is_async:
        async def aimpl(kw: Dict[str, Any]) -> Any:
            await Suspend()
            return impl(kw)

        return mkfn(params, aimpl, is_async=True, name=name, awaiting=True)
    return mkfn(params, impl, name=name)


_BODY_PARAMS = {
    "func": ("x",),
    "static": ("x",),
    "method": ("self", "x"),
    "prop_set": ("self", "x"),
    "init": ("self", "x"),
    "class": ("cls", "x"),
    "new": ("cls", "x"),
    "prop_get": ("self",),
    "prop_del": ("self",),
}
_MEMBER_NAME = {
    "method": "m",
    "static": "m",
    "class": "m",
    "prop_get": "p",
    "prop_set": "p",
    "prop_del": "p",
    "init": "__init__",
    "new": "__new__",
}


def _decorate(rt: Built, prog: Prog, lvl: int, fn: Callable[..., Any]) -> Callable[..., Any]:
    lev = prog.levels[lvl]
    cparams = ("x",) if prog.kind in X_KINDS else ("self",)
    eff = effective(prog, lvl)
    pparams = cparams + ("result",) + (("OLD",) if eff.snaps and rt.post_old == 0 else ())
    eparams = cparams + ("result",) + (("OLD",) if eff.snaps and rt.post_old in (0, 1) else ())
    for i in range(lev.post):
        fn = icontract.ensure(
            _cond(rt, "post", lvl, i, pparams, is_async=False), **_error_kwargs(rt, ("post", lvl, i), eparams)
        )(fn)
    for i in range(lev.snaps):
        fn = icontract.snapshot(_capture(rt, lvl, i, cparams), name="s_{}_{}".format(lvl, i))(fn)
    for i in range(lev.pre):
        fn = icontract.require(
            _cond(rt, "pre", lvl, i, cparams), **_error_kwargs(rt, ("pre", lvl, i), cparams)
        )(fn)
    if lev.foreign:
        fn = _foreign(fn, prog.is_async)
    return fn


def _foreign(fn: Callable[..., Any], is_async: bool) -> Callable[..., Any]:
    """An ordinary third-party decorator written with functools.wraps."""
    import functools

    if is_async:
        @functools.wraps(fn)
        async def wrapper(*args: Any, **kwargs: Any) -> Any:
            return await fn(*args, **kwargs)
    else:
        @functools.wraps(fn)
        def wrapper(*args: Any, **kwargs: Any) -> Any:  # type: ignore
            return fn(*args, **kwargs)
    return wrapper


_CHECK_ON = {
    "CALL": icontract.InvariantCheckEvent.CALL,
    "SETATTR": icontract.InvariantCheckEvent.SETATTR,
    "ALL": icontract.InvariantCheckEvent.ALL,
}


def _sibling_accessor(built: Built, which: str, lvl: int) -> Callable[..., Any]:
    """The other accessor(s) of the property under test.  Every level that defines the member also re-defines its
    siblings (new function objects); the root level's siblings carry contracts of their own which are always falsy and
    leave a ("sibling", ...) entry in the log: they are never called by the harnesses, so none of their contracts may
    ever be evaluated - unless the library lets an accessor's contracts leak into another accessor."""
    if which == "get":
        def sibling(self: Any) -> Any:
            return None
    else:
        def sibling(self: Any, value: Any) -> Any:  # type: ignore
            return None
    if lvl != 0:
        return sibling

    def sib_pre(self: Any) -> Any:
        built.rt.log.append(("sibling", which, "pre"))
        return False

    def sib_post(self: Any) -> Any:
        built.rt.log.append(("sibling", which, "post"))
        return False

    def sib_cap(self: Any) -> Any:
        built.rt.log.append(("sibling", which, "snap"))
        return None
    fn = icontract.ensure(sib_post, error=lambda: Tag(("sibling", which, "post")))(sibling)
    fn = icontract.snapshot(sib_cap, name="sibling_" + which)(fn)
    fn = icontract.require(sib_pre, error=lambda: Tag(("sibling", which, "pre")))(fn)
    return fn


def build(prog: Prog, rt: Optional[RT], use_dbc: bool = True, root_init: bool = True,
          error_mode: Optional[str] = None, async_conds: int = 0, post_old: int = 0,
          async_level: Optional[int] = None) -> Built:
    """Create the real program.  May raise what icontract raises at definition time."""
    assert prog.valid(), prog
    built = Built(prog, rt, error_mode or (rt.error_mode if rt is not None else "factory"))
    built.async_conds = async_conds
    built.post_old = post_old
    built.async_level = async_level
    rt = built  # the helpers below take the Built (static part); run-time state is built.rt
    kind = prog.kind
    if kind == "func":
        bare = _body(rt, _BODY_PARAMS[kind], prog.is_async, "f", kind)
        built.bare = bare
        built.func = _decorate(rt, prog, 0, bare)
        return built

    member = _MEMBER_NAME[kind]
    prev = None  # type: Optional[type]
    for lvl, lev in enumerate(prog.levels):
        ns = {}  # type: Dict[str, Any]
        if lvl == 0:
            ns["_x"] = None
            if root_init and kind not in CTOR_KINDS:
                def __init__(self: Any) -> None:
                    pass
                ns["__init__"] = __init__
        if lev.defines:
            bare = _body(rt, _BODY_PARAMS[kind], prog.is_async, member, kind)
            fn = _decorate(rt, prog, lvl, bare)
            if kind == "static":
                ns[member] = staticmethod(fn)
            elif kind == "class":
                ns[member] = classmethod(fn)
            elif kind == "prop_get":
                ns[member] = property(fget=fn)
            elif kind == "prop_set":
                ns[member] = property(fget=_sibling_accessor(rt, "get", lvl), fset=fn)
            elif kind == "prop_del":
                ns[member] = property(fget=_sibling_accessor(rt, "get", lvl), fset=_sibling_accessor(rt, "set", lvl),
                                      fdel=fn)
            else:
                ns[member] = fn
        if lvl == 0:
            bases = (icontract.DBC,) if use_dbc else ()  # type: Tuple[type, ...]
        else:
            assert prev is not None
            bases = (prev,)
        name = "C{}".format(lvl)
        if use_dbc:
            cls = icontract.DBCMeta(name, bases, ns)
        else:
            cls = type(name, bases, ns)
        for i, on in enumerate(lev.inv):
            cls = icontract.invariant(
                _cond(rt, "inv", lvl, i, ("self",)),
                check_on=_CHECK_ON[on],
                **_error_kwargs(rt, ("inv", lvl, i), ("self",)),
            )(cls)
        built.classes.append(cls)
        prev = cls
    return built


_BUILT_CACHE = {}  # type: Dict[Tuple[Any, ...], Any]


def get_built(prog: Prog, error_mode: str, use_dbc: bool = True, root_init: bool = True,
              async_conds: int = 0, post_old: int = 0, async_level: Optional[int] = None) -> Any:
    """Build (once per process, natively) the program for concrete selectors; returns Built or the
    exception instance that icontract raised at definition time."""
    from vfw.hlib import untraced

    key = (prog, error_mode, use_dbc, root_init, async_conds, post_old, async_level)
    with untraced():
        hit = _BUILT_CACHE.get(key)
        if hit is None:
            try:
                hit = build(prog, None, use_dbc=use_dbc, root_init=root_init, error_mode=error_mode,
                            async_conds=async_conds, post_old=post_old, async_level=async_level)
            except (TypeError, ValueError) as err:
                hit = err
            _BUILT_CACHE[key] = hit
    return hit


def invoke(built: Built, x: Any, upto: Optional[int] = None) -> Any:
    """Perform ONE operation of the member on a fresh instance of level ``upto`` (default last)."""
    prog = built.prog
    rt = built.rt
    kind = prog.kind
    if kind == "func":
        rt.begin()
        res = built.func(x)
        return drive(res) if prog.is_async else res
    cls = built.classes[-1 if upto is None else upto]
    if kind in CTOR_KINDS:
        rt.begin()
        return cls(x)
    rt.phase = "setup"
    inst = cls()
    if kind in ("prop_get", "prop_del"):
        object.__setattr__(inst, "_x", x)
    rt.begin()
    if kind == "method":
        res = inst.m(x)
    elif kind == "static":
        res = inst.m(x)
    elif kind == "class":
        res = cls.m(x)
    elif kind == "prop_get":
        res = inst.p
    elif kind == "prop_set":
        inst.p = x
        res = None
    elif kind == "prop_del":
        del inst.p
        res = None
    else:
        raise ValueError(kind)
    return drive(res) if prog.is_async else res
