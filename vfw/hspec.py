"""Declarative description of a harness: parameters (symbolic domains), tiers, time budget."""
from typing import Any, Callable, Dict, List, Optional, Sequence, Tuple


class P:
    """One symbolic parameter."""

    def __init__(self, name: str, typ: str, lo: Optional[int] = None, hi: Optional[int] = None,
                 maxlen: Optional[int] = None) -> None:
        self.name = name
        self.typ = typ  # "bool" | "int" | "list" | "optstr" | "str"
        self.lo = lo
        self.hi = hi
        self.maxlen = maxlen

    def annotation(self) -> str:
        return {"bool": "bool", "int": "int", "list": "List[int]", "optstr": "Optional[str]", "str": "str"}[self.typ]

    def pre_lines(self) -> List[str]:
        n = self.name
        if self.typ == "int":
            return ["{} <= {} <= {}".format(self.lo, n, self.hi)]
        if self.typ == "list":
            return [
                "len({}) <= {}".format(n, self.maxlen),
                "all({} <= e <= {} for e in {})".format(self.lo, self.hi, n),
            ]
        if self.typ == "optstr":
            return ["{} is None or len({}) <= {}".format(n, n, self.maxlen)]
        if self.typ == "str":
            return ["len({}) <= {}".format(n, self.maxlen)]
        return []

    def describe(self) -> str:
        if self.typ == "int":
            return "{}: int in [{}, {}]".format(self.name, self.lo, self.hi)
        if self.typ == "list":
            return "{}: List[int], len <= {}, elements in [{}, {}]".format(self.name, self.maxlen, self.lo, self.hi)
        if self.typ in ("optstr", "str"):
            return "{}: {} of length <= {}".format(self.name, self.annotation(), self.maxlen)
        return "{}: bool".format(self.name)


def B(name: str) -> P:
    return P(name, "bool")


def I(name: str, lo: int, hi: int) -> P:  # noqa: E743
    return P(name, "int", lo, hi)


def L(name: str, maxlen: int, lo: int, hi: int) -> P:
    return P(name, "list", lo, hi, maxlen)


def OS(name: str, maxlen: int) -> P:
    return P(name, "optstr", maxlen=maxlen)


def S(name: str, maxlen: int) -> P:
    return P(name, "str", maxlen=maxlen)


class H:
    """A harness: ``fn(**params) -> (ok, witness)``."""

    def __init__(
        self,
        name: str,
        fn: Callable[..., Tuple[Any, Any]],
        params: Sequence[P],
        tiers: Sequence[str] = ("quick", "thorough"),
        timeout: int = 120,
        extra_pre: Sequence[str] = (),
        family: str = "",
        family_size: int = 0,
        twin: bool = True,
        grid: int = 200,
        path_timeout: Optional[int] = None,
        py_flags: Sequence[str] = (),
        hash_seeds: Sequence[str] = (),
        replay_env: Optional[Dict[str, str]] = None,
        witness_only: bool = False,
    ) -> None:
        self.name = name
        self.fn = fn
        self.params = list(params)
        self.tiers = tuple(tiers)
        self.timeout = timeout
        self.extra_pre = list(extra_pre)
        self.family = family
        self.family_size = family_size
        self.twin = twin
        self.grid = grid
        self.path_timeout = path_timeout
        #: interpreter flags for the processes that execute this harness (e.g. ["-O"])
        self.py_flags = list(py_flags)
        #: if given: the concrete grid is additionally run once per PYTHONHASHSEED value and the ``detail`` strings the
        #: harness returns (third tuple element) are compared byte-wise across the processes
        self.hash_seeds = list(hash_seeds)
        #: a counterexample is replayed a second time with these environment variables set (C12: on a real asyncio loop)
        self.replay_env = dict(replay_env or {})
        #: the harness exists only so that the witness of a known finding can be replayed; it is not checked symbolically
        self.witness_only = witness_only

    def bounds_text(self) -> List[str]:
        return [p.describe() for p in self.params] + ["pre: " + e for e in self.extra_pre]


def bind(run: Callable[..., Tuple[Any, Any]], prefix: Sequence[Any], all_names: Sequence[str],
         defaults: Dict[str, Any], provided: Sequence[str]) -> Callable[..., Tuple[Any, Any]]:
    """Positional adapter: ``fn(*values_of_provided)`` -> ``run(*prefix, *full_positional_args)``.

    No dict is touched at call time (dict operations on symbolic values are very slow under CrossHair).
    """
    for n in provided:
        assert n in all_names, n
    plan = [((list(provided).index(n) if n in provided else None), defaults.get(n)) for n in all_names]
    for (idx, _), n in zip(plan, all_names):
        assert idx is not None or n in defaults, "no value for " + n
    pre = tuple(prefix)

    def fn(*a: Any) -> Tuple[Any, Any]:
        assert len(a) == len(provided)
        return run(*pre, *[a[i] if i is not None else c for (i, c) in plan])

    return fn
