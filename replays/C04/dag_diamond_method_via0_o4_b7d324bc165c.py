#!/venv/bin/python
"""Replay of a counterexample for C04 / harness dag_diamond_method_via0_o4 (quick tier).

found by the concrete grid: ok=False

Runs the harness on the concrete inputs below against the icontract found in $VERIF_REPO
(default /repo), in plain CPython, and exits 1 if the property clause is violated.
"""
import os, sys
sys.dont_write_bytecode = True
sys.path.insert(0, '/verif')
sys.path.insert(0, os.environ.get("VERIF_REPO", "/repo"))
from harness.C04 import harnesses
h = [h for h in harnesses('quick') if h.name == 'dag_diamond_method_via0_o4'][0]
ARGS = {'o1': 0, 'o2': 1, 'o3': 0, 'i0': True, 'a0': True, 'a1': False, 'a2': True, 'a3': False, 'q0': False, 'q1': True, 'q2': True, 'q3': True, 'v0': True}
try:
    ok, witness = h.fn(*[ARGS[p.name] for p in h.params])
except Exception as err:
    import traceback; traceback.print_exc()
    print("REPRODUCED (exception): property=C04 harness=dag_diamond_method_via0_o4 args=%r" % (ARGS,))
    sys.exit(1)
if not ok:
    print("REPRODUCED: property=C04 harness=dag_diamond_method_via0_o4 args=%r" % (ARGS,))
    sys.exit(1)
print("not reproduced: harness returned ok")
sys.exit(0)
