#!/bin/sh
# usage: [WT_PREFIX=w2] tools/seeded.sh <PROP> [<name>] [-- extra vf args]
# Verify a seeded change produced in the scratch worktree /tmp/wt_<PROP> and run the property's check against it.
#  1. pinned suite still passes with the change   2. demo fails with / passes without the change
#  3. ./vf check <PROP> against the changed tree (VERIF_REPO)   4. keep patch.diff, demo, NOTE.md, meta.json in /verif/seeded/<name>/
prop="$1"; name="${2:-$1}"; shift; [ $# -gt 0 ] && shift
[ "$1" = "--" ] && shift
wt="/tmp/${WT_PREFIX:-wt}_$prop"
VH="${VERIF_HOME:-/verif}"
out="$VH/seeded/$name"
mkdir -p "$out"
cd "$wt" || exit 2
git diff -- icontract > "$out/patch.diff"
[ -s "$out/patch.diff" ] || { echo "no change in $wt"; exit 2; }
cp "$wt/demo_$prop.py" "$out/demo.py" 2>/dev/null
cp "$wt/NOTE.md" "$out/NOTE.md" 2>/dev/null
base="$("$VH"/tools/baseline.sh "$wt" | head -1)"
PYTHONPATH="$wt" /venv/bin/python "$wt/demo_$prop.py" > "$out/demo_with.log" 2>&1; with=$?
git stash -q -- icontract
PYTHONPATH="$wt" /venv/bin/python "$wt/demo_$prop.py" > "$out/demo_without.log" 2>&1; without=$?
git stash pop -q
echo "baseline: $base ; demo exit with change=$with without=$without"
cd "$VH"
start=$(date +%s)
VERIF_REPO="$wt" ./vf check "$prop" "$@" > "$out/check.log" 2>&1; rc=$?
end=$(date +%s)
grep -E "^(VIOLATION|KNOWN-FINDING)" "$out/check.log" | head -5
tail -1 "$out/check.log"
nviol=$(grep -c "^VIOLATION" "$out/check.log")
/venv/bin/python - "$out" "$prop" "$base" "$with" "$without" "$rc" "$nviol" "$((end-start))" "$*" <<'PY'
import json, sys, os
out, prop, base, w, wo, rc, nviol, secs, extra = sys.argv[1:10]
note = open(os.path.join(out, "NOTE.md")).read() if os.path.exists(os.path.join(out, "NOTE.md")) else ""
meta = {
  "property": prop,
  "needs_to_manifest": note.strip()[:1500],
  "origin": "independent sub-agent given only the property text and a scratch worktree",
  "verified": {"pinned_suite": base, "demo_exit_with_change": int(w), "demo_exit_without_change": int(wo)},
  "check_run": {"cmd": "VERIF_REPO=<tree with patch> ./vf check %s %s" % (prop, extra), "exit": int(rc), "violation_lines": int(nviol), "wall_s": int(secs)},
  "detected": int(rc) == 1 and int(nviol) > 0,
}
json.dump(meta, open(os.path.join(out, "meta.json"), "w"), indent=1)
print("detected:", meta["detected"])
PY
