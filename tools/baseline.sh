#!/bin/sh
# Run the pinned test-suite on a repo dir (default /repo) and compare the passing set with BASELINE.json.
repo="${1:-/repo}"
out="$(mktemp)"
( cd "$repo" && PYTHONPATH="$repo" /venv/bin/python -m pytest -ra -q -p no:cacheprovider --timeout=900 --continue-on-collection-errors --junitxml="$out" >/dev/null 2>&1 )
/venv/bin/python - "$out" <<'PY'
import json, sys, xml.etree.ElementTree as ET
base = set(json.load(open('/root/.vp/BASELINE.json'))['stable_pass'])
passed = set()
for tc in ET.parse(sys.argv[1]).getroot().iter('testcase'):
    if not list(tc):
        passed.add("{}::{}".format(tc.get('classname'), tc.get('name')))
missing = sorted(base - passed)
print("baseline={} passed_now={} missing={}".format(len(base), len(passed), len(missing)))
for m in missing: print("  MISSING", m)
sys.exit(1 if missing else 0)
PY
rc=$?
rm -f "$out"
exit $rc
