#!/venv/bin/python
"""Annotate /verif/seeded/C??r4_*/meta.json with the round number, the measured first run and what was added."""
import glob
import json
import os

FIRST = {
    "C01": "MISSED on the first run (measured): no two groups of the family shared a predicate function; harness `shared_predicate_pre` (chain and two-bases shapes) was added, detected since",
    "C02": "MISSED on the first run (measured): the C02 family was linear chains only; harness `two_bases_post` (a second, contract-less base providing the member; method / classmethod / staticmethod / __str__) was added, detected since (C04's dag harness has such hierarchies, but the change is judged against C02's check)",
    "C03": "MISSED on the first run (measured): the family had no async public method, and every operation of a sequence ran in a context of its own, which hid a mark left behind by an earlier operation; operation `apub` was added and the whole sequence of a path now runs in one fresh context, detected since",
    "C04": "MISSED on the first run (measured): all ancestors of the family provided the member as a Python function; harness `nonpython_provider` (built-in base, slot wrapper of object, functools.lru_cache above the contracts) was added, detected since",
    "C05": "MISSED on the first run (measured): the defaulted parameter of the error factory introduced after round 3 was not a name of the call; in the `po == False` variants the capture and the error factory now declare the function's named parameters with defaults of their own, detected since",
    "C06": "MISSED on the first run (measured): no variable of the generated modules shadowed a built-in name (and the completeness oracle skipped every name found in builtins); global `hash = 9`, two expressions and an oracle that skips only the built-in object itself were added, detected since",
    "C07": "MISSED on the first run (measured): no description contained a brace; the description of the `description` configuration now contains `{name}`, `{}` and a lone `{`, detected since",
    "C08": "MISSED on the first run (measured): every capture of the family had one parameter; harness `multi_parameter_capture` (three parameters in another order than the function's, six call styles, def / async def) was added, detected since",
    "C09": "MISSED on the first run (measured): the non-exception returned by the error factory was a string; form `none_factory` was added, detected since",
    "C10": "MISSED on the first run (measured): every check process imports asyncio before icontract; harness `import_order_tasks` (fresh interpreter, both import orders, tasks created inside marked regions) was added, detected since",
    "C11": "MISSED on the first run (measured): the invariant's truth did not depend on the body; bit `brk` (the injected body fault leaves the invariant broken) was added, detected since",
    "C12": "MISSED on the first run (measured): C11's cross-context close (round 3) had no counterpart in C12's check; harness `abandoned_child` (real tasks; a suspended child finalised from its creator) was added, detected since",
    "C13": "MISSED on the first run (measured): all conditions of a level were written the same way; `cmode` 4 (coroutine functions at even positions, plain at odd) was added, detected since",
    "C14": "MISSED on the first run (measured): the foreign decorators over `async def` were themselves `async def`; harness `colour_changing_foreign_decorator` was added, detected since",
    "C15": "MISSED on the first run (measured): no definition-time rejection was compared across interpreter modes; harnesses `definition_guards_<mode>` were added, detected since (in all three modes: the class is accepted where ValueError is due)",
    "C16": "MISSED on the first run (measured): all error factories of the C16 family returned truthy exceptions; configuration (method, falsy_factory) was added, detected since",
    "C17": "detected by the check as it was (step `decorate_same_bare_again`)",
    "C18": "detected by the check as it was (`hook`: classes with their own invariant decorators are announced more than once to the recorder)",
    "C19": "MISSED on the first run (measured): the reserved keyword was only passed to functions with **kwargs; two misuse kinds without **kwargs (violated precondition; a condition reading _KWARGS) were added, detected since",
    "C20": "MISSED on the first run (measured): no condition of the C20 family read a private attribute. OBSOLETE since fix e752837 of the same round: the changed line (`sorted(self._code_names)`) no longer exists - the mangled name is now derived from the condition's qualified name, no set is iterated. The harness `private_names` (six hash seeds) was added all the same; on the tree the change was written for it alarms with and without the change, because of the defect e752837 repairs (the alphabetically first candidate won)",
}

for d in sorted(glob.glob("/verif/seeded/C??r4_*")):
    prop = os.path.basename(d)[:3]
    meta = json.load(open(os.path.join(d, "meta.json")))
    first = json.load(open(os.path.join(d, "first_run.json")))
    meta["round"] = 4
    meta["first_run_detected"] = bool(first.get("detected"))
    meta["first_run"] = {"base": "17adb11", "check_run": first.get("check_run"), "patch": "patch_on_17adb11.diff",
                         "log": "first_run_check.log"}
    meta["base"] = "0a138e0 (patch.diff applies to it)" if prop != "C20" else "17adb11 (obsolete on later trees)"
    meta["first_encounter"] = FIRST[prop]
    json.dump(meta, open(os.path.join(d, "meta.json"), "w"), indent=1)
    print(os.path.basename(d), "first:", meta["first_run_detected"], "now:", meta["detected"])
