#!/venv/bin/python
"""Annotate /verif/seeded/C??r3_*/meta.json with the round number, the measured first run and what was added."""
import glob
import json
import os

FIRST = {
    "C01": "MISSED on the first run (measured): no condition of the C01 family returned a non-coroutine awaitable; the selector `amode` (plain / coroutine function / plain returning a coroutine / plain returning a Future-like awaitable) was added to the async harnesses, detected since (C13 had that mode already, but the change is judged against C01's check)",
    "C02": "MISSED on the first run (measured): the property kinds of the generic program model gave the *other* accessors of the property no contracts; contracted, always-falsy, logging sibling accessors were added to vfw/build.py and a sibling check to C01/C02, detected since",
    "C03": "MISSED on the first run (measured): no class of the family derived from a built-in container without a Python __init__; shape `list_sub` (and `plain_init_alias`, `dbc_sub_init_over_noinit` for the defects repaired in the same round) was added, detected since",
    "C04": "MISSED on the first run (measured): same edit as C02 round 1 / C18 round 1 (`find_checker` returns the outermost carrier), found independently a third time; harness C04 had no foreign functools.wraps decorator above an override's contracts; bit `fg` was added, detected since",
    "C05": "MISSED on the first run (measured): every postcondition of the C05 family asked for OLD itself; bit `po` (only the error factory asks for OLD, and it has a defaulted parameter unknown to f) was added, detected since",
    "C06": "MISSED on the first run (measured): all values of the family had a structural `==`; displays holding an always-equal object / an object whose `==` has no truth value were added to the expression family, detected since",
    "C07": "MISSED on the first run (measured): no guard had two `if` filters in one `for` clause of an all(...); three such guards (one probe-logged) were added, detected since",
    "C08": "MISSED on the first run (measured): the misuse family had unnamed captures with zero and with two mandatory parameters only; cases 10/11 (parameters with default values) were added, detected since",
    "C09": "detected by the check as it was (falsy exception forms on async functions)",
    "C10": "detected by the check as it was (graph_bodies: recursive calls made by a body)",
    "C11": "MISSED on the first run (measured): coroutines were always closed from the context they ran in; injection how=2 (closed from another context while the coroutine's own context carries the mark of another function, then that other context is probed) was added, detected since",
    "C12": "MISSED on the first run (measured, on the tree before fix bc8a75c): no child task was spawned from the body of a precondition-only async function. The harness `spawn_from_inside` (real threads / real asyncio tasks) was added and catches the change on that tree (checked natively: afunc_pre_only / body, the violating child call returns). On the current tree the marks name their owner, the child task is checked and the change NO LONGER VIOLATES C12 (its demonstration exits 0); it still breaks C10 (a body awaiting its own function in the same task) and is caught by C10's `graph_*` harnesses like C10r3",
    "C13": "detected by the check as it was (cmode 3: plain functions returning non-coroutine awaitables)",
    "C14": "MISSED on the first run (measured): every foreign decorator of the stacks copied __dict__; bit `fd` (functools.wraps(fn, updated=())) was added, detected since",
    "C15": "MISSED on the first run (measured): no call passed a reserved keyword; bit `kwcall` (f(1, _ARGS=...) on a function with **kwargs) was added to the explicitly-enabled harnesses, detected since (under -O and -OO)",
    "C16": "MISSED on the first run (measured): same edit as C04r3 (a fourth independent occurrence of `find_checker` returning the outermost carrier); bit `fg` was added to the overriding-method order harnesses, detected since",
    "C17": "MISSED on the first run (measured): the post-hoc `require` step existed for methods only; step `posthoc_require_on_bare_property_override` was added, detected since",
    "C18": "MISSED on the first run (measured): constructor calls were judged for classes with __init__ and CALL invariants only; harness `ctor_invariants` (5 class shapes x check_on of two invariants) was added, detected since",
    "C19": "MISSED on the first run (measured): the invalid `error` values were all non-callable; callable object / functools.partial / builtin were added, detected since",
    "C20": "MISSED on the first run (measured): user-supplied limits were only given to preconditions; selector `role` (precondition / postcondition / invariant / inherited invariant) was added to `limits`, detected since",
}

for d in sorted(glob.glob("/verif/seeded/C??r3_*")):
    prop = os.path.basename(d)[:3]
    meta = json.load(open(os.path.join(d, "meta.json")))
    first = json.load(open(os.path.join(d, "first_run.json")))
    meta["round"] = 3
    meta["first_run_detected"] = bool(first.get("detected"))
    meta["first_run"] = {"base": "cf8350e", "check_run": first.get("check_run"), "patch": "patch_on_cf8350e.diff",
                         "log": "first_run_check.log"}
    meta["base"] = "17adb11 (patch.diff applies to it)"
    meta["first_encounter"] = FIRST[prop]
    json.dump(meta, open(os.path.join(d, "meta.json"), "w"), indent=1)
    print(os.path.basename(d), "first:", meta["first_run_detected"], "now:", meta["detected"])
