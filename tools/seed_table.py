#!/venv/bin/python
"""Print the markdown table of the seeded changes of one round (from /verif/seeded/*/meta.json)."""
import glob
import json
import os
import sys

rnd = int(sys.argv[1])
print("| seeded change | property | first run (measured) | detected now | what was added |")
print("|---|---|---|---|---|")
for d in sorted(glob.glob("/verif/seeded/*")):
    mp = os.path.join(d, "meta.json")
    if not os.path.exists(mp):
        continue
    m = json.load(open(mp))
    if m.get("round", 1) != rnd:
        continue
    first = m.get("first_run_detected")
    now = m.get("detected")
    cr = m.get("check_run", {})
    print("| `{}` | {} | {} | {} | {} |".format(
        os.path.basename(d), m["property"],
        "not measured" if first is None else ("detected" if first else "MISSED"),
        "yes ({} VIOLATION line(s), {} s)".format(cr.get("violation_lines"), cr.get("wall_s")) if now else "no",
        m.get("first_encounter", "").replace("|", "/")))
