#!/bin/sh
# usage: tools/mutant.sh <patch-file> <property> [extra vf args]   -- apply a patch to a scratch copy of /repo and run a check on it
set -e
patch="$(realpath "$1")"; prop="$2"; shift 2
scratch="$(mktemp -d /tmp/mut_XXXXXX)"
trap 'rm -rf "$scratch"' EXIT
cp -r /repo/icontract /repo/tests /repo/tests_3_6 /repo/tests_3_7 /repo/tests_3_8 /repo/tests_with_others /repo/setup.py /repo/README.rst /repo/mypy.ini /repo/pylint.rc /repo/precommit.py /repo/docs "$scratch"/ 2>/dev/null || true
( cd "$scratch" && git init -q . && git apply "$patch" )
if [ -z "$SKIP_BASELINE" ]; then
  /verif/tools/baseline.sh "$scratch" | head -5
fi
cd /verif
VERIF_REPO="$scratch" ./vf check "$prop" "$@" 2>&1 | grep -v "^INCONCLUSIVE" | tail -6
echo "exit=$?"
