#!/usr/bin/env python3
"""Generate /verif/MANIFEST.json from the table below (kept in one place so it stays valid)."""
import json, os
HERE = os.path.dirname(os.path.dirname(os.path.abspath(__file__)))
CHECKS = json.load(open(os.path.join(HERE, "tools", "checks.json")))
props = [json.loads(l) for l in open(os.path.join(HERE, "properties.jsonl"))]
ids = [p["id"] for p in props]
checks = []
for pid in ids:
    c = CHECKS["claimed"].get(pid)
    if not c:
        continue
    checks.append({
        "property_id": pid,
        "quick_cmd": "./vf check {} --tier quick".format(pid),
        "thorough_cmd": "./vf check {} --tier thorough".format(pid),
        "evidence_file": "evidence/{}.json".format(pid),
        "replay_cmd_template": "./vf replay {path}",
        "engine": "crosshair-z3",
        "level_claimed": {"category": "model_checking", "text": c["text"], "design_ref": "DESIGN.md section 4 / " + pid},
        "level_note": c.get("note", "bounds, program family, excluded known-finding regions and per-harness verdicts are in the evidence "
                      "file (coverage.harnesses[]); trusted base: CrossHair 0.0.110 proxies/tracer, z3 5.1.0, CPython 3.12.1, "
                      "the reference model vfw/prog.py where used; mitigations: replay in plain CPython, concrete grid, vacuity twins"),
        "technique": c.get("technique", "symbolic execution of harness + real icontract code (CrossHair), every branch decided by z3, "
                      "path exhaustion within stated bounds; counterexamples replayed on plain CPython"),
    })
na = [{"property_id": pid, "reason": CHECKS["not_applicable"].get(pid, "no check registered yet")} for pid in ids if pid not in CHECKS["claimed"]]
m = {
 "version": 1,
 "setup_cmd": "./vf setup",
 "hooks": {
  "guard": "ICONTRACT_VERIF",
  "enable": "no hooks are needed: all observation goes through user callbacks supplied by the harnesses and the documented introspection attributes; checks import icontract straight from /repo's working tree (VERIF_REPO overrides the path)",
  "baseline_off_cmd": "cd /repo && /venv/bin/python -m pytest -ra -q -p no:cacheprovider --timeout=900 --continue-on-collection-errors",
  "source_commits": [],
  "add_only": True
 },
 "engines": [{
   "name": "crosshair-z3", "path": "vfw/launcher.py", "serves_properties": [c["property_id"] for c in checks],
   "kind_free_text": "CrossHair 0.0.110 symbolic execution (PEP316 wrappers generated per run by vfw/runner.py) of harness + the real icontract modules, every branch decided by z3 5.1.0; verdict = path exhaustion ('Confirmed over all paths') or a concrete counterexample that is replayed in plain CPython"
 }],
 "checks": checks,
 "not_applicable": na,
 "notes": "exit 0 = held on everything explored (KNOWN-FINDING lines possible), 1 = VIOLATION line(s), 2 = inconclusive (search not exhausted / engine fault; never a verdict). known_findings.json lists recorded findings and the fix: commits made in /repo."
}
json.dump(m, open(os.path.join(HERE, "MANIFEST.json"), "w"), indent=1)
print("checks:", [c["property_id"] for c in checks], "n/a:", [n["property_id"] for n in na])
