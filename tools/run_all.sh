#!/bin/sh
# Run every registered check of a tier sequentially (or only the properties given after the tier); one summary line each.
tier="${1:-quick}"
[ $# -gt 0 ] && shift
props="${*:-C01 C02 C03 C04 C05 C06 C07 C08 C09 C10 C11 C12 C13 C14 C15 C16 C17 C18 C19 C20}"
cd /verif
for p in $props; do
  start=$(date +%s)
  ./vf check $p --tier $tier > /tmp/run_all_$p.log 2>&1
  rc=$?
  end=$(date +%s)
  echo "$p rc=$rc $((end-start))s $(tail -1 /tmp/run_all_$p.log)"
  grep -E "^(VIOLATION|INCONCLUSIVE|KNOWN-FINDING|ENGINE)" /tmp/run_all_$p.log | cut -c1-220
done
